"""
checks.py — per-property check logic for alv.py (see DESIGN.md sections 2, 5, 7, 8).
"""
import os, sys, json, zlib, time, random, re, subprocess, collections
import alv
from alv import log
sys.path.insert(0, os.path.join(alv.HERE, "gen"))
import cases
import x86ref

PROBES = [b"mov rax, 0x1", b"mov rax, 0x0000000000000001", b"lea r15, [rax+rsp]", b"lea r15, [2*rax]"]


class Ctx:
    """state of one check run"""
    def __init__(self, prop, tier, seed):
        self.prop, self.tier, self.seed = prop, tier, seed
        self.t0 = time.time()
        self.obligations = []          # (name, ok, detail)
        self.violations = []           # concrete failing inputs: dict(kind, payload)
        self.broken = []               # obligations/correspondences that no longer check
        self.known_lines = []
        self.cov = collections.OrderedDict(evaluations=0, distinct_nontrivial=0, rule="", samples=[])
        self.assumptions = []
        self.axioms = {}
        self.dist = {}
        self.nontrivial = set()

    def oblige(self, name, ok, detail=""):
        self.obligations.append((name, bool(ok), detail))
        if not ok:
            self.broken.append({"obligation": name, "detail": detail[-4000:]})

    def count(self, n, nontrivial_keys):
        self.cov["evaluations"] += n
        self.nontrivial.update(nontrivial_keys)


def split_lines(text):
    """the lines of a program as str_to_instr sees them: split at every CR or LF"""
    return re.split(b"[\r\n]", text)


# ------------------------------------------------------------------------------------------
# common stages
# ------------------------------------------------------------------------------------------

def stage_proofs(cx, module, theorems, extra_modules=()):
    """regen tables (T1), build property module + driver, scan sources, audit axioms"""
    try:
        info = alv.regen()
    except alv.BuildError as e:
        cx.oblige("T1 regenerate tables from /repo/src", False, str(e))
        return None
    cx.oblige("T1 regenerate tables from /repo/src (row count cross-checked)", True)
    ok, out, dt = alv.lake_build([module, "aldriver"] + list(extra_modules))
    cx.oblige(f"lake build {module} aldriver", ok, out if not ok else "")
    cx.build_s = dt
    hits = alv.scan_sources()
    cx.oblige("source scan: no sorry/admit/axiom/native_decide/bv_decide/implemented_by/unsafe", not hits, "\n".join(hits))
    if ok:
        axioms, bad, raw = alv.audit(module, theorems)
        cx.axioms = axioms
        for t in theorems:
            tb = [b for b in bad if b.startswith(t + ":")]
            cx.oblige(f"theorem {t} (axioms: {', '.join(axioms.get(t, ['?'])) or 'none'})", not tb, "; ".join(tb))
        if cx.tier == "thorough":
            p = alv.run(["lake", "env", "leanchecker", module], cwd=alv.LEAN, timeout=1800)
            cx.oblige(f"leanchecker {module}", p.returncode == 0, (p.stdout + p.stderr)[-2000:])
    else:
        for t in theorems:
            cx.oblige(f"theorem {t}", False, "module did not build")
    return info


def build_impl(cx, name="apidrv", flavour="asan", **kw):
    try:
        return alv.build_harness(name, flavour, **kw)
    except alv.BuildError as e:
        cx.oblige(f"build implementation ({name}, {flavour})", False, str(e))
        return None


def impl_line_results(impl, keys):
    """assemble each (opt, line) alone on the implementation: {(opt,line): (rc, hexbytes)}"""
    keys = sorted(set(keys))
    ops = ["L %d %s" % (o, cases.hexs(l)) for o, l in keys]
    rc, out, err = alv.run_driver(impl, ops)
    if rc != 0 or len(out) != len(ops):
        k = alv.bisect_crash(impl, ops) if rc != 0 else len(out)
        raise ImplCrash(ops[k] if k < len(ops) else "?", err)
    res = {}
    for (o, l), line in zip(keys, out):
        p = line.split()
        res[(o, l)] = (p[0], p[2] if p[0] == "0" else "-")
    return res


class ImplCrash(Exception):
    def __init__(self, op, err):
        self.op, self.err = op, err


def table_ops(res):
    return ["T %d %s %s %s" % (o, cases.hexs(l), rc, bs) for (o, l), (rc, bs) in sorted(res.items())]


def programs_in(history):
    """program texts (bytes) of the A and C ops of a history"""
    out = []
    for op in history:
        p = op.split()
        if p[0] == "A":
            out.append(bytes.fromhex(p[2]) if p[2] != "-" else b"")
        elif p[0] == "C":
            out.append(bytes.fromhex(p[3]) if p[3] != "-" else b"")
    return out


def tie_table_for(impl, histories):
    """(implementation-only runs need no table: T/Y ops are model-side)"""
    return []


def tie_api_mod_lf(cx, impl, histories, label):
    """T3 modulo the encoder: the parser/API model runs with the implementation's own per-line
    results (table mode), so only the state machine is compared."""
    keys = set()
    for h in histories:
        for prog in programs_in(h):
            for l in split_lines(prog):
                for o in cases.OPTS:
                    keys.add((o, l))
    try:
        res = impl_line_results(impl, keys)
    except ImplCrash as e:
        cx.violations.append({"kind": "crash", "op": e.op, "stderr": e.err[-1500:], "where": label})
        return [], []
    stream = table_ops(res) + ["Y 1"]
    nt = len(stream)
    for h in histories:
        stream += h
    n, out_c, mism, crash = alv.correspond(impl, stream, label)
    cx.count(n - nt, [])
    # op indices are reported relative to the histories (the table ops in front are not part of what is returned)
    if crash:
        crash = dict(crash)
        crash["op_index"] = max(crash.get("op_index", nt) - nt, 0)
        cx.violations.append({"kind": "crash", **crash})
    for m in mism:
        m = dict(m)
        m["op_index"] = max(m.get("op_index", nt) - nt, 0)
        cx.broken.append({"correspondence": label, **m})
    cx.oblige(f"correspondence {label}: {n - nt} ops, {len(histories)} histories", not mism and not crash,
              json.dumps(mism[:3]))
    return stream[nt:], out_c[nt:]


def tie_lines(cx, impl, lines, label):
    """T2: (opt, text) cases, whole per-line pipeline, model vs implementation"""
    ops = ["L %d %s" % (o, cases.hexs(l)) for o, l in lines]
    n, out_c, mism, crash = alv.correspond(impl, ops, label)
    cx.count(n, [])
    if crash:
        cx.violations.append({"kind": "crash", **crash})
    for m in mism:
        cx.broken.append({"correspondence": label, **m})
    cx.oblige(f"correspondence {label}: {n} lines", not mism and not crash, json.dumps(mism[:3]))
    return ops, out_c


def minimise_history(impl, hist, bad_pred):
    """delta-debug a failing history (list of ops) keeping `bad_pred(hist)` true"""
    cur = list(hist)
    changed = True
    while changed and len(cur) > 1:
        changed = False
        for i in range(len(cur)):
            cand = cur[:i] + cur[i + 1:]
            try:
                if cand and bad_pred(cand):
                    cur, changed = cand, True
                    break
            except Exception:
                pass
    return cur


# ------------------------------------------------------------------------------------------
# verdict / evidence
# ------------------------------------------------------------------------------------------

def finish(cx, level_rule, exhaustive=False, extra=None):
    known = alv.known_findings(cx.prop)
    wall = time.time() - cx.t0
    new_viol = []
    for v in cx.violations:
        kf = next((k for k in known if k.get("match") and re.search(k["match"], json.dumps(v))), None)
        if kf:
            line = f"KNOWN-FINDING: property={cx.prop} {kf['class']} {kf['witness']} {kf['what']}"
            if line not in cx.known_lines:
                cx.known_lines.append(line)
        else:
            new_viol.append(v)
    for l in cx.known_lines:
        print(l)
    nob = len(cx.obligations)
    ndis = sum(1 for _, ok, _ in cx.obligations if ok)
    cx.cov["distinct_nontrivial"] = len(cx.nontrivial)
    cx.cov["rule"] = level_rule
    cx.cov["exhaustive"] = exhaustive
    cx.cov["obligations"] = nob
    cx.cov["discharged"] = ndis
    cx.cov["checker_cmd"] = "cd lean && lake build <property module> aldriver && lake env lean <audit file: #print axioms for every property theorem>"
    cx.cov["trusted_base"] = alv.TRUSTED_BASE
    cx.cov["obligation_list"] = [{"name": n, "ok": ok} for n, ok, _ in cx.obligations]
    cx.cov["axioms"] = cx.axioms
    cx.cov["input_distribution"] = cx.dist
    cx.cov["known_findings_printed"] = cx.known_lines
    if extra:
        cx.cov.update(extra)
    if not cx.cov["samples"]:
        cx.cov["samples"] = ["(no samples recorded)"]
    ev = {"property_id": cx.prop, "tier": cx.tier, "seed": cx.seed, "level": "proof", "coverage": cx.cov,
          "assumptions": cx.assumptions + [
              "the hand-written AL.Impl control flow is tied to the C code by differential execution: sampling for unbounded domains",
              "gcc, sanitizers and libc behave as documented"],
          "wall_s": round(wall, 2), "violations": len(new_viol) + (1 if cx.broken and not new_viol else 0)}
    os.makedirs(alv.EVID, exist_ok=True)
    json.dump(ev, open(os.path.join(alv.EVID, cx.prop + ".json"), "w"), indent=1)
    if new_viol:
        path = alv.write_replay(cx.prop, cx.seed, "input", {"violations": new_viol[:5], "broken": cx.broken[:5]})
        print(f"VIOLATION property={cx.prop} replay={path}")
        return 1
    if cx.broken:
        path = alv.write_replay(cx.prop, cx.seed, "obligation", {"broken": cx.broken[:10]})
        print(f"VIOLATION property={cx.prop} replay={path} no-failing-input-found")
        return 1
    print(f"OK property={cx.prop} tier={cx.tier} seed={cx.seed} obligations={ndis}/{nob} "
          f"evaluations={cx.cov['evaluations']} wall={wall:.1f}s")
    return 0


# ------------------------------------------------------------------------------------------
# property checks
# ------------------------------------------------------------------------------------------

def check_C12(cx):
    thms = ["AL.Properties.C12." + t for t in
            ["create_default", "step_refines", "refines", "refines_abs", "conc_abs", "other_instances_untouched"]]
    info = stage_proofs(cx, "AL.Properties.C12", thms)
    impl = build_impl(cx)
    if not (info and impl):
        return finish(cx, "")
    g = cases.Gen(cx.seed, info["tables"])
    r = g.r
    setters = ["mov", "sib", "swap", "nobase", "all"]
    vals = [0, 1, 2, 3]
    # discrimination: the 12 configurations give 12 distinct probe signatures on the implementation
    sig = impl_line_results(impl, [(o, p) for o in cases.OPTS for p in PROBES])
    sigs = {o: tuple(sig[(o, p)] for p in PROBES) for o in cases.OPTS}
    cx.oblige("probe lines discriminate all 12 option states on the implementation",
              len(set(sigs.values())) == 12, json.dumps({str(k): v for k, v in sigs.items()}))
    hists = []
    probe_prog = cases.hexs(b"\n".join(PROBES))

    def hist_for(calls, inst=0, extra_inst=None):
        h = ["N %d 128 cc" % inst]
        if extra_inst is not None:
            h.append("N %d 128 00" % extra_inst)
        for (i, w, v) in calls:
            h.append("S %d %s %d" % (i, w, v))
        ids = [inst] + ([extra_inst] if extra_inst is not None else [])
        for i in ids:
            h += ["O %d 0" % i, "A %d %s" % (i, probe_prog), "D %d 0 40" % i]
        h += ["F %d" % i for i in ids]
        return h
    # exhaustive: all sequences of length <= 2 (quick) / 3 (thorough) over 5 setters x 4 values
    alphabet = [(w, v) for w in setters for v in vals]
    maxlen = 3 if cx.tier == "thorough" else 2
    import itertools
    nseq = 0
    for n in range(0, maxlen + 1):
        for seq in itertools.product(alphabet, repeat=n):
            hists.append(hist_for([(0, w, v) for w, v in seq]))
            nseq += 1
    # per dimension, every sequence of three calls (thorough: four) of the setters that touch it with the documented values: a transition
    # that depends on how the current state was reached (NASM, SMART, NASM ...) needs more than two calls
    for dim_setters in (["mov", "all"], ["swap", "sib", "all"], ["nobase", "sib", "all"]):
        alpha_d = [(w, v) for w in dim_setters for v in (0, 1, 2)]
        for n in ((3,) if cx.tier == "quick" else (3, 4)):
            for seq in itertools.product(alpha_d, repeat=n):
                if n == 4 and zlib.crc32(repr(seq).encode()) % 3:
                    continue
                hists.append(hist_for([(0, w, v) for w, v in seq]))
                nseq += 1
    # random longer ones, also negative / large values and two live instances
    for _ in range(300 if cx.tier == "quick" else 3000):
        n = r.choice([3, 4, 6, 10])
        two = r.random() < 0.5
        calls = [((r.choice([0, 1]) if two else 0), r.choice(setters), r.choice([0, 1, 2, 3, 7, -1, 100]))
                 for _ in range(n)]
        hists.append(hist_for(calls, 0, 1 if two else None))
    # undocumented values that look like documented ones after a narrowing conversion (low byte / low 16 bits 0, 1, 2) or a sign change:
    # every setter x every such value, from each of the three documented states of the setter's dimension
    odd = [256, 257, 258, 65536, 65537, 65538, 1 << 24, (1 << 24) + 1, -256, -255, -254, 2 ** 31 - 1, -2 ** 31, 4, 8, 16, 255]
    for w in setters:
        for v in odd:
            for pre in ([], [("all", 0)], [("all", 1)], [("mov", 2), ("sib", 0)]):
                hists.append(hist_for([(0, pw, pv) for pw, pv in pre] + [(0, w, v)]))
    # each dimension by itself: lines that are sensitive to two or three dimensions at once (a padded / short / decimal immediate
    # next to a base-less scaled index or a stack-pointer index) under all 12 states, whole per-line model against the implementation —
    # the setting of one dimension must not change how another one is applied on the same line
    cross = []
    for ins in (b"add qword", b"mov qword", b"and dword", b"cmp byte", b"test qword"):
        for mem in (b"[2*rax]", b"[1*r9]", b"[rax+rsp]", b"[r13+rsp]", b"[2*r13+0x10]", b"[rcx]"):
            for imm in (b"0x1", b"0x0000000000000001", b"1", b"-0x0000000000000002", b"0x000000000000007f"):
                cross.append(ins + b" " + mem + b", " + imm)
    for mem in (b"[2*rax]", b"[rax+rsp]", b"[2*r13]"):
        cross += [b"mov rax, " + mem, b"lea r15, " + mem]
    tie_lines(cx, impl, [(o, l) for o in cases.OPTS for l in cross],
              "C12 lines sensitive to several option dimensions at once, all 12 states (whole per-line model)")
    # failing-input search on the implementation alone: none of these lines is a `mov r64, imm`, so under a fixed pair of SIB settings
    # the three mov-immediate settings must give the same code
    cres = impl_line_results(impl, [(o, l) for o in cases.OPTS for l in cross])
    dep = None
    for l in cross:
        for sibbits in sorted(set(o & ~3 for o in cases.OPTS)):
            got = {o: cres[(o, l)] for o in cases.OPTS if o & ~3 == sibbits}
            if len(set(got.values())) > 1 and dep is None:
                dep = {"line": l.decode(), "sib_bits": sibbits, "by_option_byte": {str(o): list(v) for o, v in got.items()}}
    cx.oblige("a line without `mov r64, imm` assembles the same under the three mov-immediate settings (each pair of SIB settings; implementation)",
              dep is None, json.dumps(dep))
    if dep:
        cx.violations.append({"kind": "dimension-dependence", "what": "the mov-immediate setting changes how the SIB settings are applied "
                              "to a line that has no mov r64, imm", **dep})
    ops, out = tie_api_mod_lf(cx, impl, hists, "C12 setter histories (model setters + implementation's own per-line results)")
    # The model's setters are PROVED to implement the documented table (refines_abs) and the probe
    # bytes come from the implementation's own per-line results for the model's option byte, so a
    # mismatch on a probe means: after this history the implementation is not in the documented state.
    for b in list(cx.broken):
        if "op_index" in b and b.get("op", "")[:1] in "AD":
            cx.violations.append({"kind": "setter-state", "what": "after this setter history the probe lines assemble differently from "
                                  "the documented option state (SMART/NASM/NASM + documented transitions)",
                                  "history": history_around(ops, b["op_index"]), "impl": b["impl"][:120], "documented": b["model"][:120]})
            break
    cx.cov["samples"] = [hists[0], hists[min(50, len(hists) - 1)], hists[-1]]
    cx.nontrivial.update(tuple(h) for h in hists)
    cx.dist = {"exhaustive_sequences_up_to_len": maxlen, "exhaustive_count": nseq, "random_histories": len(hists) - nseq}
    return finish(cx, "every sequence of up to %d setter calls (5 setters x values 0..3) exhaustively, plus seeded random "
                  "longer sequences with out-of-range values on one or two live instances; each followed by the four "
                  "probe lines; distinct = distinct call sequences" % maxlen, exhaustive=False)


def gen_histories(g, n, **kw):
    return [cases.history(g, **kw) for _ in range(n)]


def guard_violations(ops, out):
    bad = []
    for i, (op, o) in enumerate(zip(ops, out)):
        if op.startswith("M ") and o.endswith(" BAD"):
            bad.append({"op": op, "out": o[-80:], "history": history_around(ops, i),
                        "what": "bytes outside the caller buffer were modified (guard region)"})
        if op.startswith("L ") and o.endswith("GUARD-BAD"):
            bad.append({"op": op, "out": o[-80:], "what": "bytes outside the scratch buffer were modified"})
        if len(bad) >= 5:
            break
    return bad


def check_C07(cx):
    thms = ["AL.Properties.C07." + t for t in ["step_J", "contained", "contained_oob", "contained_lib", "no_room_fails"]] + \
           ["AL.Lemmas.emitOne_frame", "AL.Lemmas.runCodes_post", "AL.Lemmas.assembleAll_post", "AL.Lemmas.nopPadding_length"]
    info = stage_proofs(cx, "AL.Properties.C07", thms)
    impl = build_impl(cx)
    if not (info and impl):
        return finish(cx, "")
    g = cases.Gen(cx.seed, info["tables"])
    hists = []
    # small buffer lengths exhaustively with short programs at every start offset
    progs = [b"ret", b"mov rax, rbx\nret", b"mov rax, 0x1122334455667788\nadd rax, rbx\nret",
             b"vpaddb ymm1, ymm2, [rax+r9*4+0x100]\nnop", b"bogus\nret", b"ret\nbogus",
             b"imul r9, word [0x10+4*r13], 0x8000000000000000", b"nop11 word -1\nnop11 word -1"]
    maxn = 64 if cx.tier == "thorough" else 44
    for n in range(0, maxn + 1):
        for pi, p in enumerate(progs):
            for k in sorted(set([0, 1, max(0, n - 21), max(0, n - 20), max(0, n - 19), n])):
                for mode in (0, 1, 2):
                    h = ["N 0 %d %02x" % (n, 0xCC)]
                    if mode == 1:
                        h.append("K 0 %d" % (8 if pi % 2 else 16))
                    h.append("O 0 %d" % k)
                    if mode == 2:
                        h.append("C 0 5 %s 1" % cases.hexs(p))
                    else:
                        h.append("A 0 %s" % cases.hexs(p))
                    h += ["G 0", "M 0", "A 0 %s" % cases.hexs(b"nop"), "G 0", "M 0", "F 0"]
                    hists.append(h)
    # chunk fitting near the end of the buffer: an instruction of 10..15 bytes that has to be
    # padded to the next boundary when fewer than 20 (or fewer than its own length) bytes remain
    longs = [b"mov qword [rax+rbx*8+0x12345678], 0x12345678", b"mov rax, 0x1122334455667788",
             b"vpaddb ymm1, ymm2, [rax+r9*4+0x100]", b"add dword [eax+ecx*4+0x11223344], 0x55667788"]
    for n in range(20, (72 if cx.tier == "thorough" else 56)):
        for c in (8, 12, 16, 24, 32):
            for lead in (0, 1, 3, 5, 7):
                for li, lg in enumerate(longs):
                    if (n + c + lead + li) % (1 if cx.tier == "thorough" else 3):
                        continue
                    prog = b"\n".join([b"nop"] * lead + [lg, lg])
                    hists.append(["N 0 %d cc" % n, "K 0 %d" % c, "A 0 %s" % cases.hexs(prog), "G 0", "M 0", "F 0"])
    # deep inside ONE call: a prefix assembled by the same call brings the write position to 19..23 bytes before the end of the buffer
    # (the instance's offset still holds the call's start), then an instruction longer than the reserve / an ordinary one follows
    tails = [b"imul r9, word [0x10+4*r13], 0x8000000000000000", b"nop11 word -1\nnop11 word -1", b"mov rax, 0x1122334455667788\nmov rbx, 0x1122334455667788",
             b"vpaddb ymm1, ymm2, [rax+r9*4+0x100]\nvpaddb ymm1, ymm2, [rax+r9*4+0x100]\nret"]
    for n in ((64, 65, 80, 100, 127, 200) if cx.tier == "quick" else tuple(range(64, 132)) + (200, 400)):
        for left in range(18, 25):
            for k in (0, 3):
                plen = n - left - k
                if plen < 0:
                    continue
                prefix = [b"mov rax, 0x1122334455667788"] * (plen // 10) + [b"ret"] * (plen % 10)
                for ti, tl in enumerate(tails):
                    for mode in (0, 1, 2):
                        if cx.tier == "quick" and (n + left + ti + mode) % 2:
                            continue
                        prog = b"\n".join(prefix + [tl])
                        h = ["N 0 %d cc" % n]
                        if mode == 1:
                            h.append("K 0 64")
                        h.append("O 0 %d" % k)
                        h.append(("C 0 64 %s 1" if mode == 2 else "A 0 %s") % cases.hexs(prog))
                        h += ["G 0", "M 0", "A 0 %s" % cases.hexs(b"nop"), "G 0", "M 0", "F 0"]
                        hists.append(h)
    # chunk fitting with a padding of SEVERAL nops (a gap of 12..17 bytes in front of a 13..15-byte instruction): every start offset inside
    # the chunk x every buffer length that leaves 12..45 bytes behind the start (the padding writer, the retried instruction and the
    # reserve test meet at the end of the buffer)
    long13 = [b"mov qword [r8d+r9d*4+0x12345678], 0x12345678", b"add qword [eax+r9d*8+0x11223344], 0x11223344", b"vpaddb ymm9, ymm10, [r8d+r9d*8+0x12345678]"]
    for c in ((16, 24) if cx.tier == "quick" else (14, 16, 20, 24, 32)):
        for k in range(0, c):
            for room in range(12, 46):
                li = (c + k + room) % len(long13)
                hists.append(["N 0 %d cc" % (k + room), "K 0 %d" % c, "O 0 %d" % k, "A 0 %s" % cases.hexs(long13[li]), "G 0", "M 0",
                              "A 0 %s" % cases.hexs(b"ret"), "G 0", "M 0", "F 0"])
    nex = len(hists)
    hists += gen_histories(g, 400 if cx.tier == "quick" else 6000, allow_internal=False)
    ops, out = tie_api_mod_lf(cx, impl, hists, "C07 histories on caller buffers with guard regions")
    for b in guard_violations(ops, out):
        cx.violations.append({"kind": "guard", **b})
    # a call that succeeds where the model — which, with the implementation's own per-line results,
    # fails exactly when fewer than BUFFER_TOLERANCE bytes remain (theorem no_room_fails) — fails,
    # stored an instruction inside the reserve: a concrete violation of the reserve clause
    for b in list(cx.broken):
        if b.get("impl", "").startswith("0 ") and b.get("model", "").startswith("1 ") and b.get("op", "")[:1] in "AC":
            cx.violations.append({"kind": "reserve", "what": "call returned EXIT_SUCCESS although fewer than 20 bytes "
                                  "remained for an instruction (model with the implementation's own line results fails)",
                                  "history": history_around(ops, b["op_index"]), **b})
            break
    cx.cov["samples"] = [hists[5], hists[nex + 1] if len(hists) > nex + 1 else hists[-1]]
    cx.nontrivial.update(tuple(h) for h in hists)
    cx.dist = {"buffer_lengths_exhaustive": [0, maxn], "structured_histories": nex, "random_histories": len(hists) - nex,
               "guard_checks": sum(1 for o in ops if o.startswith("M "))}
    return finish(cx, "caller buffers of every length 0..%d x 8 programs (incl. failing lines and 20/22-byte instructions) x "
                  "start offsets around the 20-byte reserve x plain/fitting/counting, then seeded random histories "
                  "(setters, chunk, offset, assemble, counting, failures followed by further calls); guard regions "
                  "checked after every dump; distinct = distinct histories" % maxn)


# ---- implementation-side oracles for the state-machine properties ------------------------------
# They use only outputs of the real library: the per-line results (each line assembled alone on
# a fresh-state instance) and the result of the call under test.

def line_codes(res, opt, text):
    """per-line codes of a program from the implementation's own per-line table;
    returns (list of bytes objects, index of first rejected line or None)"""
    codes = []
    for i, l in enumerate(split_lines(text)):
        rc, bs = res[(opt, l)]
        if rc != "0":
            return codes, i
        if bs != "-":
            codes.append(bytes.fromhex(bs))
    return codes, None


def spec_fit_layout(codes, c, p, nops):
    """what fitting mode has to store (AL.Lemmas.layoutAll / Properties.C13): pads of NOP-table entries"""
    out = bytearray()
    for bs in codes:
        free = c - p % c
        if not (len(bs) <= free or len(bs) >= c):
            rem = free
            while rem > 0:
                k = min(rem, len(nops))
                out += bytes(nops[k - 1])
                rem -= k
            p += free
        out += bs
        p += len(bs)
    return bytes(out)


def spec_cross_count(codes, c, p):
    n = 0
    for bs in codes:
        if len(bs) > 0 and p // c != (p + len(bs) - 1) // c:
            n += 1
        p += len(bs)
    return n


def run_impl(impl, ops):
    rc, out, err = alv.run_driver(impl, ops)
    if rc != 0 or len(out) != len(ops):
        k = alv.bisect_crash(impl, ops) if rc != 0 else len(out)
        raise ImplCrash(ops[min(k, len(ops) - 1)], err)
    return out


def check_C06(cx):
    thms = ["AL.Properties.C06." + t for t in ["program_code", "program_code_lib", "concat_call", "split_codes", "split_calls"]] + \
           ["AL.Lemmas.assembleLine_local", "AL.Lemmas.items_eq_itemsL", "AL.Lemmas.asm_layout", "AL.Lemmas.runCodes_layout",
            "AL.Lemmas.Split.call_split", "AL.Lemmas.Split.call_split_err", "AL.Lemmas.Split.count_split", "AL.Lemmas.Split.count_split_err"]
    info = stage_proofs(cx, "AL.Properties.C06", thms)
    impl = build_impl(cx)
    if not (info and impl):
        return finish(cx, "")
    g = cases.Gen(cx.seed, info["tables"])
    r = g.r
    progs = []
    reps = cases.REPR_LINES
    # every ordered pair from the representative set
    step = 1 if cx.tier == "thorough" else 1
    for a in reps:
        for b in reps:
            progs.append((14, a + b"\n" + b))
    # every ordered pair of MNEMONICS that share their first letter (one accepted line each): what a lookup leaves behind for the next line
    # (a cache, a hint, a table position) would show between neighbours of the table
    by_mn = {}
    tries = 0
    while tries < 60000 and len(by_mn) < 400:
        tries += 1
        l = g.valid_line()
        mn = l.split()[0] if l.split() else ""
        if mn and mn not in by_mn and all(32 <= ord(c) < 127 for c in l) and ";" not in l and ":" not in l:
            by_mn[mn] = l.encode()
    for l in reps:
        by_mn.setdefault(l.split()[0].decode(), l)
    okl = impl_line_results(impl, [(14, l) for l in by_mn.values()])
    by_mn = {m: l for m, l in by_mn.items() if okl[(14, l)][0] == "0"}
    mns = sorted(by_mn)
    nmn = 0
    for a in mns:
        for b in mns:
            if a != b and a[0] == b[0] and (cx.tier == "thorough" or zlib.crc32((a + "," + b).encode()) % 2 == 0 or abs(mns.index(a) - mns.index(b)) <= 3):
                progs.append((14, by_mn[a] + b"\n" + by_mn[b]))
                nmn += 1
    npairs = len(progs)
    # random longer programs, other option bytes, CR/CRLF, comment/label lines
    for _ in range(600 if cx.tier == "quick" else 6000):
        progs.append((r.choice(cases.OPTS), g.program(r.choice([2, 3, 5, 8, 12]))))
    # comments far longer than any line buffer, made of text that would assemble if it were taken for code (only a line's SIGNIFICANT
    # characters are limited): behind an instruction, on a line of their own, in front of the last line, with LF / CRLF / CR line ends
    for clen in (120, 250, 257, 300, 1000, 5000):
        filler = (b"nop " * (clen // 4 + 1))[:clen] + b" nop"
        for eol in (b"\n", b"\r\n", b"\r"):
            progs.append((14, eol.join([b"mov rax, rbx ; " + filler, b"ret"])))
            progs.append((14, eol.join([b"push r12", b"; " + filler, b"% " + filler, b"pop r12", b"ret ; " + filler]) + eol))
    hists = []
    meta = []
    for opt, text in progs:
        k = r.choice([0, 0, 1, 7, 33])
        fill = r.choice([0x00, 0xcc, 0xff, 0x90])
        lines = split_lines(text)
        cut = r.randrange(len(lines)) if len(lines) > 1 else 0
        # split at a line boundary: join back with LF
        t1 = b"\n".join(lines[:cut + 1])
        t2 = b"\n".join(lines[cut + 1:])
        setopt = ["S 0 mov %d" % (opt & 3), "S 0 swap %d" % ((opt >> 2) & 1), "S 0 nobase %d" % ((opt >> 3) & 1)]
        h = ["N 0 400 %02x" % fill] + setopt + ["O 0 %d" % k, "A 0 %s" % cases.hexs(text), "G 0", "D 0 0 400", "F 0",
             "N 0 400 %02x" % (fill ^ 0x5a)] + setopt + ["O 0 %d" % k, "A 0 %s" % cases.hexs(t1), "A 0 %s" % cases.hexs(t2),
             "G 0", "D 0 0 400", "F 0"]
        hists.append(h)
        meta.append((opt, text, k, fill, len(setopt)))
    ops, out = tie_api_mod_lf(cx, impl, hists, "C06 programs: one call vs two calls vs per-line results")
    # oracle on the implementation's outputs
    keys = set((o, l) for o, t, _, _, _ in meta for l in split_lines(t))
    res = impl_line_results(impl, keys)
    pos = 0
    nviol = 0
    nontriv = 0
    for (opt, text, k, fill, ns), h in zip(meta, hists):
        o = out[pos:pos + len(h)]
        pos += len(h)
        if len(o) < len(h):
            break
        codes, bad = line_codes(res, opt, text)
        a_whole = o[ns + 2].split()
        off_whole, dump_whole = o[ns + 3], o[ns + 4]
        base = len(h) // 2
        off_two, dump_two = o[-3], o[-2]
        a_t1, a_t2 = o[base + ns + 2].split(), o[base + ns + 3].split()
        if bad is None:
            code = b"".join(codes)
            nontriv += 1 if len(codes) > 1 else 0
            exp_off = k + len(code)
            got = bytes.fromhex(dump_whole) if dump_whole != "-" else b""
            ok = a_whole[0] == "0" and int(off_whole) == exp_off and got[k:k + len(code)] == code and \
                got[:k] == bytes([fill]) * k
            got2 = bytes.fromhex(dump_two) if dump_two != "-" else b""
            ok2 = a_t1[0] == "0" and a_t2[0] == "0" and int(off_two) == exp_off and got2[k:k + len(code)] == code
            if not (ok and ok2) and nviol < 5:
                nviol += 1
                cx.violations.append({"kind": "concat", "opt": opt, "program": text.decode("latin1"), "start_offset": k,
                                      "expected_code": code.hex(), "one_call": dump_whole[2 * k:2 * (k + len(code) + 4)],
                                      "two_calls": dump_two[2 * k:2 * (k + len(code) + 4)], "offsets": [off_whole, off_two, exp_off],
                                      "what": "code of the program is not the concatenation of its lines' codes / differs between one and two calls",
                                      "history": h})
        else:
            if a_whole[0] != "1" and nviol < 5:
                nviol += 1
                cx.violations.append({"kind": "concat", "opt": opt, "program": text.decode("latin1"),
                                      "what": "a line that is rejected alone was accepted inside the program", "history": h})
    # the long comments again, judged against the same program WITHOUT them (the per-line results above come from the implementation
    # itself: a comment that leaks into the code of its own line would go unnoticed there)
    cops, cexp = [], []
    for clen in (120, 250, 257, 300, 1000, 5000):
        filler = (b"nop " * (clen // 4 + 1))[:clen] + b" nop"
        for eol in (b"\n", b"\r\n", b"\r"):
            for with_c, plain in ((eol.join([b"mov rax, rbx ; " + filler, b"ret"]), b"mov rax, rbx\nret"),
                                  (eol.join([b"push r12", b"; " + filler, b"% " + filler, b"pop r12", b"ret ; " + filler]) + eol, b"push r12\npop r12\nret")):
                cexp.append((len(cops), with_c))
                cops += ["N 0 400 cc", "A 0 %s" % cases.hexs(with_c), "G 0", "D 0 0 64", "F 0", "N 0 400 cc", "A 0 %s" % cases.hexs(plain), "G 0", "D 0 0 64", "F 0"]
    try:
        cout = run_impl(impl, cops)
        for i0, with_c in cexp:
            if cout[i0 + 1:i0 + 4] != cout[i0 + 6:i0 + 9] and nviol < 8:
                nviol += 1
                cx.violations.append({"kind": "concat", "program": with_c[:200].decode("latin1") + " ...", "with_comments": cout[i0 + 1:i0 + 4],
                                      "without_comments": cout[i0 + 6:i0 + 9],
                                      "what": "a program with long comments does not give the concatenation of the code of its instruction lines"})
    except ImplCrash as e:
        cx.violations.append({"kind": "crash", "op": e.op[:200], "stderr": e.err[-600:], "what": "programs with long comments"})
    # long programs on the library-managed buffer: one call, one call per line, and every two-call split whose boundary falls next to
    # a growth point of the buffer (the split must not matter there either)
    pool = [b"mov rax, 0x1122334455667788", b"add rax, rbx", b"ret", b"push r12", b"lea rax, [rbx+rcx*4+0x100]", b"vpaddb ymm1, ymm2, ymm3",
            b"mov qword [rax+rbx*8+0x12345678], 0x12345678", b"clc"]
    pres = impl_line_results(impl, [(14, l) for l in pool])
    plen = {l: len(pres[(14, l)][1]) // 2 for l in pool}
    lhists, lmeta = [], []
    for rep in range(2 if cx.tier == "quick" else 8):
        body, total = [], 0
        while total < (6600 if rep % 2 == 0 else 12700):
            l = r.choice(pool)
            body.append(l)
            total += plen[l]
        cum, cuts = 0, []
        for i, l in enumerate(body[:-1]):
            cum += plen[l]
            if any(abs(cum - q) <= 24 for q in (6000, 12000)):
                cuts.append(i + 1)
        whole = b"\n".join(body)
        h = ["N 0 -", "A 0 %s" % cases.hexs(whole), "G 0", "D 0 0 %d" % total, "F 0", "N 0 -"] + \
            ["A 0 %s" % cases.hexs(l) for l in body] + ["G 0", "D 0 0 %d" % total, "F 0"]
        lhists.append(h)
        lmeta.append(("per-line", total, None))
        for c in cuts:
            lhists.append(["N 0 -", "A 0 %s" % cases.hexs(whole), "G 0", "D 0 0 %d" % total, "F 0", "N 0 -",
                           "A 0 %s" % cases.hexs(b"\n".join(body[:c])), "A 0 %s" % cases.hexs(b"\n".join(body[c:])), "G 0", "D 0 0 %d" % total, "F 0"])
            lmeta.append(("split", total, sum(plen[l] for l in body[:c])))
    # a caller buffer the program only just fits: feeding the non-emitting rest (comments, labels, blank lines, nothing at all) in a
    # call of its own needs no room and changes nothing
    tight_meta = []
    tails = [b"; done", b"end:\n\n", b"section .text\n; c", b"   \n\t", b""]
    for rep in range(40 if cx.tier == "quick" else 400):
        body = [r.choice(pool) for _ in range(r.choice([1, 2, 3, 5]))]
        lens_ = [plen[l] for l in body]
        n = sum(lens_[:-1]) + 20 + r.choice([0, 0, 1, 5])
        if n < sum(lens_):
            continue
        tail = r.choice(tails)
        text = b"\n".join(body)
        one = text + b"\n" + tail
        h = ["N 0 %d cc" % n, "A 0 %s" % cases.hexs(one), "G 0", "D 0 0 %d" % n, "F 0", "N 0 %d cc" % n, "A 0 %s" % cases.hexs(text),
             "A 0 %s" % (cases.hexs(tail) if tail else "-"), "A 0 -", "G 0", "D 0 0 %d" % n, "F 0"]
        lhists.append(h)
        lmeta.append(("tight-split", sum(lens_), n))
    lops, lout = tie_api_mod_lf(cx, impl, lhists, "C06 long programs on the library-managed buffer: one call vs per line vs splits at growth points")
    pos = 0
    for (kind, total, at), h in zip(lmeta, lhists):
        o = lout[pos:pos + len(h)]
        pos += len(h)
        if len(o) < len(h):
            break
        calls = [x for x, op in zip(o, h) if op.startswith("A ")]
        if (any(c.split()[0] != "0" for c in calls) or o[2] != str(total) or o[-3] != str(total) or o[3] != o[-2]) and nviol < 8:
            nviol += 1
            bad = next((i for i, c in enumerate(calls) if c.split()[0] != "0"), None)
            cx.violations.append({"kind": "long-program-" + kind, "code_length": total, "split_at_offset": at, "first_failing_call": bad,
                                  "offsets": [o[2], o[-3]], "what": "feeding the program in several calls on the library-managed buffer fails or "
                                  "gives different code than one call", "history": [x[:100] for x in h[:8]]})
    cx.nontrivial.update((o, t) for o, t, _, _, _ in meta)
    cx.cov["samples"] = [hists[3], hists[npairs + 1] if len(hists) > npairs + 1 else hists[-1]]
    cx.dist = {"long_program_histories": len(lhists), "ordered_pairs": npairs, "representative_lines": len(reps), "random_programs": len(progs) - npairs,
               "programs_with_all_lines_accepted_and_2+_instructions": nontriv}
    return finish(cx, "every ordered pair of %d representative lines (one per encoding class) as a two-line program, plus seeded random "
                  "programs (2..12 lines, LF/CR/CRLF, comment/label/blank lines, all 12 option bytes), each assembled in one call and "
                  "split at a random line boundary into two calls, at start offsets {0,1,7,33} over different buffer fills; "
                  "oracle: concatenation of the implementation's own per-line results; distinct = distinct (options, program)" % len(reps))


def check_C13(cx):
    thms = ["AL.Properties.C13." + t for t in ["pad_only_when_crossing", "instruction_in_one_chunk", "fitting_is_plain_with_pads",
            "plain_layout", "pads_are_nops", "small_chunk_disables", "chunk_enables", "fitting_call", "pad_is_nops", "second_assembly_same"]] + \
           ["AL.Lemmas.second_round_fits", "AL.Lemmas.emitOne_layout", "AL.Lemmas.runCodes_layout", "AL.Lemmas.pad_aligned"]
    info = stage_proofs(cx, "AL.Properties.C13", thms)
    impl = build_impl(cx)
    if not (info and impl):
        return finish(cx, "")
    nops = info["tables"]["nops"]
    g = cases.Gen(cx.seed, info["tables"])
    r = g.r
    pool = cases.REPR_LINES + cases.LONG_LINES
    # one representative line per instruction length the library emits
    res0 = impl_line_results(impl, [(14, l) for l in pool])
    bylen = {}
    for l in pool:
        rc, bs = res0[(14, l)]
        if rc == "0" and bs != "-":
            bylen.setdefault(len(bs) // 2, l)
    lens = sorted(bylen)
    hists, meta = [], []
    cmax = 40 if cx.tier == "thorough" else 24
    for c in range(2, cmax + 1):
        for p0 in range(0, c):
            for ln in lens:
                text = b"\n".join([b"nop"] * 0 + [bylen[ln], bylen[lens[(ln + c) % len(lens)]]])
                hists.append(["N 0 300 cc", "K 0 %d" % c, "O 0 %d" % p0, "A 0 %s" % cases.hexs(text), "G 0", "D 0 0 300", "F 0"])
                meta.append((14, text, c, p0))
    # library-managed buffers with chunk sizes at and above the current buffer length: the boundary lies in memory the call itself
    # has to grow into (explicit far offsets just below the boundary, and a long program that reaches it)
    mov10 = b"mov rax, 0x1122334455667788"
    for c in (6020, 6021, 6023, 6033, 12020, 12021, 50000):
        for d in (1, 5, 9, 13):
            p0 = c - d
            text = b"\n".join([mov10, b"add qword [r12+r13*8+0x11223344], 0x55667788", mov10])
            hists.append(["N 0 -", "K 0 %d" % c, "O 0 %d" % p0, "A 0 %s" % cases.hexs(text), "G 0", "D 0 %d %d" % (p0, p0 + 90), "F 0"])
            meta.append((14, text, c, p0, p0))
    for c in (6020, 6021, 6022, 6023, 6030):
        text = b"\n".join([b"add qword [r12+r13*8+0x11223344], 0x55667788"] * 520)
        hists.append(["N 0 -", "K 0 %d" % c, "O 0 0", "A 0 %s" % cases.hexs(text), "G 0", "D 0 5980 6100", "F 0"])
        meta.append((14, text, c, 0, 5980))
    nstruct = len(hists)
    for _ in range(500 if cx.tier == "quick" else 5000):
        c = r.choice([2, 3, 4, 5, 7, 8, 9, 13, 16, 21, 32, 64])
        p0 = r.randrange(0, 70)
        text = b"\n".join(r.choice(pool) for _ in range(r.choice([1, 2, 3, 5, 9])))
        hists.append(["N 0 300 cc", "K 0 %d" % c, "O 0 %d" % p0, "A 0 %s" % cases.hexs(text), "G 0", "D 0 0 300", "F 0"])
        meta.append((14, text, c, p0))
    # fitting switched on and off between calls, c < 2 disables it; a counting call in between changes nothing
    onoff = []
    for _ in range(300 if cx.tier == "quick" else 3000):
        c1, c2 = r.choice([0, 1, 2, 5, 8, 16]), r.choice([0, 1, 3, 8, 13])
        t1 = b"\n".join(r.choice(pool) for _ in range(3))
        t2 = b"\n".join(r.choice(pool) for _ in range(3))
        between = []
        if r.random() < 0.5:
            between = ["C 0 %d %s 1" % (r.choice([2, 4, 7, 16]), cases.hexs(b"\n".join(r.choice(pool) for _ in range(2)))), "O 0 40"]
        if r.random() < 0.3:
            between = ["K 0 %d" % r.choice([0, 1])] + between
        h = ["N 0 400 cc", "K 0 %d" % c1, "A 0 %s" % cases.hexs(t1), "G 0", "K 0 %d" % c2] + between + \
            ["O 0 40", "A 0 %s" % cases.hexs(t2), "G 0", "D 0 0 400", "F 0"]
        hists.append(h)
        meta.append(None)
        # effective fitting state for the last call: the last K decides (a K below 2 switches fitting off and keeps the size)
        ks = [int(x.split()[2]) for x in h if x.startswith("K ")]
        onoff.append((len(hists) - 1, t2, ks[-1] if ks[-1] >= 2 else 0))
    # the SAME size again after fitting was switched off (a setter that skips "unchanged" sizes would leave fitting off), with and without
    # calls in between, and a size change while fitting is off
    for c in range(2, 25 if cx.tier == "quick" else 41):
        for off in (0, 1):
            for variant in range(3):
                t2 = b"\n".join(r.choice(pool) for _ in range(4))
                mid1 = ["A 0 %s" % cases.hexs(r.choice(pool)), "G 0"] if variant == 1 else []
                mid2 = ["A 0 %s" % cases.hexs(r.choice(pool)), "G 0"] if variant >= 1 else []
                last = c if variant < 2 else c + 1
                h = ["N 0 400 cc", "K 0 %d" % c] + mid1 + ["K 0 %d" % off] + mid2 + ["K 0 %d" % last, "O 0 40", "A 0 %s" % cases.hexs(t2), "G 0", "D 0 0 400", "F 0"]
                hists.append(h)
                meta.append(None)
                onoff.append((len(hists) - 1, t2, last))
    # chunk sizes beyond 32 bits (the parameter is a size_t): no boundary of such a chunk lies inside any buffer, so the layout is the plain
    # one — whatever the low 32 bits of the size are
    for big in (2 ** 32 + 8, 2 ** 32 + 5, 2 ** 33 + 16, 2 ** 40 + 3, 2 ** 32 + 2):
        for variant in range(2):
            t2 = b"\n".join(r.choice(pool) for _ in range(5))
            pre = ["K 0 4", "K 0 1"] if variant else []
            h = ["N 0 400 cc"] + pre + ["K 0 %d" % big, "O 0 40", "A 0 %s" % cases.hexs(t2), "G 0", "D 0 0 400", "F 0"]
            hists.append(h)
            meta.append(None)
            onoff.append((len(hists) - 1, t2, 0))
    # a fitting call that fails after some of its lines were laid out, directly followed (no asm_set_offset, no setter) by another call:
    # the second call starts at the unchanged offset and is laid out from there
    afterfail = []
    for _ in range(200 if cx.tier == "quick" else 2000):
        c = r.choice([2, 3, 5, 7, 8, 9, 12, 16])
        p0 = r.randrange(0, 40)
        good1 = [r.choice(pool) for _ in range(r.choice([1, 2, 4]))]
        t1 = b"\n".join(good1 + [r.choice([b"bogus rax, rbx", b"mov rax, [rbx", b"add rax, rbz"])] + [r.choice(pool)])
        t2 = b"\n".join(r.choice(pool) for _ in range(3))
        h = ["N 0 400 cc", "K 0 %d" % c, "O 0 %d" % p0, "A 0 %s" % cases.hexs(t1), "G 0", "A 0 %s" % cases.hexs(t2), "G 0", "D 0 0 400", "F 0"]
        hists.append(h)
        meta.append(None)
        afterfail.append((len(hists) - 1, t2, c, p0))
    ops, out = tie_api_mod_lf(cx, impl, hists, "C13 chunk fitting histories")
    res = impl_line_results(impl, set((14, l) for m in meta if m for l in split_lines(m[1])))
    pos, nviol, npadded = 0, 0, 0
    for m, h in zip(meta, hists):
        o = out[pos:pos + len(h)]
        pos += len(h)
        if m is None or len(o) < len(h):
            continue
        opt, text, c, p0 = m[:4]
        win = m[4] if len(m) > 4 else 0          # where the dump starts
        codes, bad = line_codes(res, opt, text)
        if bad is not None:
            continue
        exp = spec_fit_layout(codes, c, p0, nops)
        if len(exp) != sum(map(len, codes)):
            npadded += 1
        rc = o[3].split()[0]
        got = bytes.fromhex(o[5]) if o[5] != "-" else b""
        lo, hi = max(win, p0), min(win + len(got), p0 + len(exp))
        ok = rc == "0" and int(o[4]) == p0 + len(exp) and hi > lo and got[lo - win:hi - win] == exp[lo - p0:hi - p0]
        if len(m) > 4:
            exp, got, p0 = exp[lo - p0:hi - p0], got[lo - win:], 0       # (for the report below)
        if not ok and nviol < 5:
            nviol += 1
            cx.violations.append({"kind": "fitting", "chunk": c, "start_offset": p0, "program": text.decode("latin1"),
                                  "expected": exp.hex(), "got": got[p0:p0 + len(exp) + 8].hex(), "offset": o[4],
                                  "what": "output is not the plain code with NOP-table pads exactly in front of the instructions that "
                                          "would straddle a boundary", "history": h})
    # on/off histories: the last call is laid out by the fitting state the setters left, whatever happened before
    starts = [0]
    for h in hists:
        starts.append(starts[-1] + len(h))
    res3 = impl_line_results(impl, set((14, l) for _, t2, _, _ in afterfail for l in split_lines(t2)))
    for hi, t2, c, p0 in afterfail:
        h = hists[hi]
        o = out[starts[hi]:starts[hi] + len(h)]
        if len(o) < len(h):
            continue
        codes, bad = line_codes(res3, 14, t2)
        if bad is not None:
            continue
        exp = spec_fit_layout(codes, c, p0, nops)
        got = bytes.fromhex(o[-2]) if o[-2] != "-" else b""
        if not (o[3].split()[0] == "1" and o[4] == str(p0) and o[5].split()[0] == "0" and int(o[6]) == p0 + len(exp) and
                got[p0:p0 + len(exp)] == exp) and nviol < 8:
            nviol += 1
            cx.violations.append({"kind": "fitting-after-failed-call", "chunk": c, "start_offset": p0, "program": t2.decode("latin1"),
                                  "expected": exp.hex(), "got": got[p0:p0 + len(exp) + 8].hex(), "results": [o[3], o[4], o[5], o[6]],
                                  "what": "after a fitting call that failed part-way, the next call is not laid out from the unchanged offset", "history": h})
    res2 = impl_line_results(impl, set((14, l) for _, t2, _ in onoff for l in split_lines(t2)))
    for hi, t2, ceff in onoff:
        h = hists[hi]
        o = out[starts[hi]:starts[hi] + len(h)]
        if len(o) < len(h):
            continue
        codes, bad = line_codes(res2, 14, t2)
        if bad is not None:
            continue
        exp = spec_fit_layout(codes, ceff, 40, nops) if ceff >= 2 else b"".join(codes)
        rc = o[-4].split()[0]
        got = bytes.fromhex(o[-2]) if o[-2] != "-" else b""
        if not (rc == "0" and int(o[-3]) == 40 + len(exp) and got[40:40 + len(exp)] == exp) and nviol < 8:
            nviol += 1
            cx.violations.append({"kind": "fitting-onoff", "effective_chunk": ceff, "program": t2.decode("latin1"), "expected": exp.hex(),
                                  "got": got[40:40 + len(exp) + 8].hex(), "offset": o[-3], "history": [x[:160] for x in h],
                                  "what": "after switching fitting on/off (and a counting call) the call is not laid out by the fitting state "
                                          "the setters left: chunk sizes below 2 disable fitting"})
    cx.nontrivial.update(m for m in meta if m)
    cx.cov["samples"] = [hists[10], hists[nstruct + 2], hists[-1]]
    cx.dist = {"chunk_sizes_exhaustive": [2, cmax], "instruction_lengths": lens, "structured": nstruct, "on_off_histories": len(onoff),
               "random": len(hists) - nstruct, "cases_with_padding": npadded}
    return finish(cx, "every chunk size 2..%d x every start position mod c x every instruction length the library emits (%s bytes; one "
                  "representative line each) followed by a second instruction; seeded random programs/chunk sizes/offsets; fitting switched "
                  "on/off between calls incl. c<2; oracle: spec layout (pads from the regenerated NOP table) computed from the "
                  "implementation's own per-line codes; distinct = distinct (program, c, offset)" % (cmax, lens))


def check_C14(cx):
    thms = ["AL.Properties.C14." + t for t in ["count_call", "count_call_small", "crosses_spec", "crossCount_append"]] + \
           ["AL.Lemmas.cross_iff", "AL.Lemmas.emitOne_count", "AL.Lemmas.runCodes_count", "AL.Lemmas.runCodes_plain_setMC",
            "AL.Lemmas.Split.count_split"]
    info = stage_proofs(cx, "AL.Properties.C14", thms)
    impl = build_impl(cx)
    if not (info and impl):
        return finish(cx, "")
    g = cases.Gen(cx.seed, info["tables"])
    r = g.r
    pool = cases.REPR_LINES + cases.LONG_LINES
    hists, meta = [], []
    cs = [-1, 0, 1] + list(range(2, 65 if cx.tier == "thorough" else 34)) + [2 ** 31 - 1]
    for c in cs:
        for p0 in sorted(set([0, 1, 2, 3, 5, 7, 8, 15, 16, 31] + ([max(c - 1, 0), c, c + 1] if 0 < c < 200 else []))):
            for rep in range(2):
                text = b"\n".join(r.choice(pool) for _ in range(r.choice([1, 3, 6])))
                # chunk fitting switched on and off again before the call: the instance is "without chunk fitting", as a fresh one
                failing = "C 0 %d %s 1" % ([8, 3, 16][(len(hists) + rep) % 3], cases.hexs(b"mov rax, 0x1122334455667788\nadd rax, rbx\nbogus rax\nret"))
                pre = [[], ["K 0 16", "K 0 0"], ["K 0 9", "K 0 1"], ["K 0 5", "K 0 0"], ["K 0 33", "K 0 1"], [failing],
                       [failing, failing.replace("C 0", "C 0", 1)], []][(len(hists) + rep) % 8]
                h = ["N 0 400 cc"] + pre + ["O 0 %d" % p0, "C 0 %d %s 1" % (c, cases.hexs(text)), "G 0", "D 0 0 400",
                     # the same program again: the count is that of the current call only
                     "C 0 %d %s 1" % (c, cases.hexs(text)), "G 0", "A 0 %s" % cases.hexs(b"nop"), "G 0", "F 0",
                     "N 0 400 cc", "O 0 %d" % p0, "A 0 %s" % cases.hexs(text), "G 0", "D 0 0 400", "F 0"]
                hists.append(h)
                meta.append((14, text, c, p0, len(pre)))
    # programs without any instruction: the count of the call is 0 (and it is written)
    for text in [b"", b"\n", b"   ", b"\t\n\n", b" \r\n \n", b"; only a comment", b"label:\n", b"section .text\n\n"]:
        for c in (-1, 0, 1, 2, 8, 64):
            for p0 in (0, 7):
                h = ["N 0 400 cc", "O 0 %d" % p0, "C 0 %d %s 1" % (c, cases.hexs(text)), "G 0", "D 0 0 400",
                     "C 0 %d %s 1" % (c, cases.hexs(text)), "G 0", "A 0 %s" % cases.hexs(b"nop"), "G 0", "F 0",
                     "N 0 400 cc", "O 0 %d" % p0, "A 0 %s" % cases.hexs(text), "G 0", "D 0 0 400", "F 0"]
                hists.append(h)
                meta.append((14, text, c, p0, 0))
    for _ in range(300 if cx.tier == "quick" else 4000):
        c = r.choice([2, 3, 4, 5, 7, 8, 16, 32, 64, 100, 4096])
        p0 = r.randrange(0, 100)
        text = g.program(r.choice([1, 2, 4, 8]))
        opt = r.choice(cases.OPTS)
        setopt = ["S 0 mov %d" % (opt & 3), "S 0 swap %d" % ((opt >> 2) & 1), "S 0 nobase %d" % ((opt >> 3) & 1)]
        h = ["N 0 400 cc"] + setopt + ["O 0 %d" % p0, "C 0 %d %s 1" % (c, cases.hexs(text)), "G 0", "D 0 0 400", "F 0"]
        hists.append(h)
        meta.append(None)
    # chunk sizes around and beyond the CURRENT length of the library-managed buffer, in calls that make it grow: boundaries beyond the
    # old end of the buffer count as well
    lpool = [b"mov rax, [rsi]", b"mov rax, 0x1122334455667788", b"add rax, rbx", b"vpaddb ymm1, ymm2, [rax+r9*4+0x100]", b"push r12", b"ret"]
    big_meta = []
    for c in (6019, 6020, 6021, 6033, 6500, 7001, 12020, 12021, 20000):
        for p0 in (0, 5990):
            body, total = [], 0
            pres0 = None
            while total < 14500:
                l = r.choice(lpool)
                body.append(l)
                total += {b"mov rax, [rsi]": 3, b"mov rax, 0x1122334455667788": 10, b"add rax, rbx": 3,
                          b"vpaddb ymm1, ymm2, [rax+r9*4+0x100]": 10, b"push r12": 2, b"ret": 1}[l]
            text = b"\n".join(body)
            hists.append(["N 0 -", "O 0 %d" % p0, "C 0 %d %s 1" % (c, cases.hexs(text)), "G 0", "F 0"])
            meta.append(None)
            big_meta.append((len(hists) - 1, text, c, p0))
    ops, out = tie_api_mod_lf(cx, impl, hists, "C14 counting histories")
    res = impl_line_results(impl, set((14, l) for m in meta if m for l in split_lines(m[1])))
    pos, nviol, ncross = 0, 0, 0
    for m, h in zip(meta, hists):
        o = out[pos:pos + len(h)]
        pos += len(h)
        if m is None or len(o) < len(h):
            continue
        opt, text, c, p0, npre = m
        codes, bad = line_codes(res, opt, text)
        if bad is not None:
            continue
        o = o[:1] + o[1 + npre:]
        rc, off, dest = o[2].split()
        rc2, off2, dest2 = o[5].split()
        plain_rc, plain_off = o[12].split()
        total = sum(map(len, codes))
        exp = spec_cross_count(codes, c, p0) if c >= 2 else 0
        exp2 = spec_cross_count(codes, c, p0 + total) if c >= 2 else 0
        ncross += 1 if exp else 0
        # (bytes are compared over [start offset, final offset): an earlier failed call may have left bytes anywhere else)
        lo_, hi_ = 2 * p0, 2 * int(off) if off.lstrip("-").isdigit() else 0
        ok = rc == "0" and plain_rc == "0" and off == plain_off and int(dest) == exp and o[4][lo_:hi_] == o[14][lo_:hi_] and \
            rc2 == "0" and int(dest2) == exp2 and o[7].split()[0] == "0"
        if not ok and nviol < 5:
            nviol += 1
            cx.violations.append({"kind": "count", "chunk": c, "start_offset": p0, "program": text.decode("latin1"),
                                  "expected_count": [exp, exp2], "got": [dest, dest2], "offsets": [off, plain_off],
                                  "what": "count/bytes of the counting call differ from the number of instructions that span two chunks / "
                                          "from plain assembly, or the following plain call failed", "history": h})
    starts = []
    acc = 0
    for h in hists:
        starts.append(acc)
        acc += len(h)
    bres = impl_line_results(impl, set((14, l) for l in lpool))
    for hi, text, c, p0 in big_meta:
        o = out[starts[hi]:starts[hi] + len(hists[hi])]
        if len(o) < len(hists[hi]):
            continue
        codes, bad = line_codes(bres, 14, text)
        exp = spec_cross_count(codes, c, p0)
        rc, off, dest = o[2].split()
        if (rc != "0" or int(dest) != exp or int(off) != p0 + sum(map(len, codes))) and nviol < 8:
            nviol += 1
            cx.violations.append({"kind": "count-growing-buffer", "chunk": c, "start_offset": p0, "program_bytes": sum(map(len, codes)),
                                  "expected_count": exp, "got": dest, "rc": rc, "offset": off,
                                  "what": "count of a call that grows the library-managed buffer differs from the number of instructions that span "
                                          "two chunks", "history": [x[:80] for x in hists[hi]]})
    cx.nontrivial.update(m for m in meta if m)
    cx.cov["samples"] = [hists[20], hists[-1]]
    cx.dist = {"histories_with_fitting_switched_on_and_off_before_the_call": sum(1 for m in meta if m and m[4]),
               "chunk_sizes": "%d values incl. -1,0,1,2^31-1" % len(cs), "structured": sum(1 for m in meta if m),
               "random": sum(1 for m in meta if not m), "cases_with_nonzero_count": ncross}
    return finish(cx, "chunk sizes -1,0,1,2..33(64),2^31-1 x start offsets incl. exact-fit positions x random programs from the "
                  "representative set, each counted twice in a row (per-call count), followed by a plain call (mode restored) and compared "
                  "with plain assembly of the same program; seeded random programs/options; oracle: floor-division crossing count from the "
                  "implementation's own per-line code lengths; distinct = distinct (program, c, offset)")


def check_C08(cx):
    thms = ["AL.Properties.C08." + t for t in ["internal_has_room", "internal_step_error", "external_step_error", "plain_success_iff",
            "growth_keeps_code", "same_as_caller_buffer", "internal_room_anywhere"]] + ["AL.Lemmas.check_frame", "AL.Lemmas.assembleAll_post", "AL.Lemmas.asm_layout"]
    info = stage_proofs(cx, "AL.Properties.C08", thms)
    impl = build_impl(cx)
    if not (info and impl):
        return finish(cx, "")
    g = cases.Gen(cx.seed, info["tables"])
    r = g.r
    Q = 6000
    finals = [b"ret", b"add rax, rbx", b"mov rax, 0x1122334455667788", b"lea rax, [rsi+0x12345678]",
              b"mov qword [rax+rbx*8+0x12345678], 0x12345678"]
    hists, meta = [], []
    BIG = 40000

    lens = ["", "1", "100", "4096", "16384", "1048576", "2147483647"]

    def twin(ops_for):
        """the same calls on an internal instance (id 0) and on a big caller buffer (id 1); the length argument of a create without
        caller buffer is documented as irrelevant: every value of it is used"""
        h = ["N 0 -%s" % lens[len(hists) % len(lens)], "N 1 %d 00" % BIG]
        h += ops_for(0) + ops_for(1)
        h += ["G 0", "G 1", "B 0", "F 0", "F 1"]
        return h
    # (a) growth reached by moving the offset next to each growth point, all three modes
    qs = (1, 2, 3) if cx.tier == "thorough" else (1, 2)
    for q in qs:
        for delta in range(-21, 22):
            for mi, mode in enumerate(("plain", "fit7", "fit9", "fit13", "fit16", "count16")):
                if cx.tier == "quick" and (delta + mi + q) % 2:
                    continue
                fin = finals[(delta + mi) % len(finals)]
                prog = b"\n".join([fin, b"clc", fin, b"mov rax, 0x1234", b"ret"])

                def ops_for(i, q=q, delta=delta, mode=mode, prog=prog):
                    o = []
                    # walk up to the q-th growth point so that every earlier growth has happened
                    for j in range(1, q):
                        o += ["O %d %d" % (i, j * Q - 5), "A %d %s" % (i, cases.hexs(b"nop\n" * 30))]
                    if mode.startswith("fit"):
                        o.append("K %d %s" % (i, mode[3:]))
                    o.append("O %d %d" % (i, q * Q + delta))
                    if mode.startswith("count"):
                        o.append("C %d 16 %s 1" % (i, cases.hexs(prog)))
                    else:
                        o.append("A %d %s" % (i, cases.hexs(prog)))
                    o.append("D %d %d %d" % (i, q * Q - 30, q * Q + 80))
                    return o
                hists.append(twin(ops_for))
                meta.append(("jump", q, delta, mode))
    # (b) genuinely long programs ending within +-20 of a growth point, single call and two calls
    longn = 6 if cx.tier == "quick" else 40
    for _ in range(longn):
        q = r.choice(qs)
        delta = r.randrange(-20, 21)
        body = [r.choice([b"clc", b"nop", b"ret", b"add rax, rbx", b"mov rax, 0x1122334455667788", b"push r12"])
                for _ in range(3000 * q)]
        mode = r.choice(["plain", "plain", "fit9", "fit16", "count16"])
        text = b"\n".join(body)
        cut = r.randrange(1, len(body))
        t1, t2 = b"\n".join(body[:cut]), b"\n".join(body[cut:])

        def ops_for(i, mode=mode, text=text, t1=t1, t2=t2):
            o = []
            if mode.startswith("fit"):
                o.append("K %d %s" % (i, mode[3:]))
            if mode.startswith("count"):
                o.append("C %d 16 %s 1" % (i, cases.hexs(text)))
            else:
                o += ["A %d %s" % (i, cases.hexs(t1)), "A %d %s" % (i, cases.hexs(t2))]
            o.append("G %d" % i)
            return o
        h = twin(ops_for)
        hists.append(h)
        meta.append(("long", q, delta, mode))
    # (c) an explicit offset far beyond the current length of the buffer, on a fresh instance and after earlier growth (fixed defect
    # 4022683: more than one growth quantum ahead was written past the mapping); what the instance assembled before must not matter
    for k in (6021, 7000, 11999, 12001, 12290, 13000, 19000, 30000):
        for warm in (0, 1, 2):
            for mi, mode in enumerate(("plain", "fit9", "count16")):
                if cx.tier == "quick" and (k + warm + mi) % 2:
                    continue
                prog = b"\n".join([finals[(k + mi) % len(finals)], b"clc", b"mov rax, 0x1234", b"ret"])

                def ops_for(i, k=k, warm=warm, mode=mode, prog=prog):
                    o = []
                    if warm:
                        o += ["A %d %s" % (i, cases.hexs(b"mov rax, 0x1122334455667788\n" * (650 * warm)))]
                    if mode.startswith("fit"):
                        o.append("K %d %s" % (i, mode[3:]))
                    o.append("O %d %d" % (i, k))
                    if mode.startswith("count"):
                        o.append("C %d 16 %s 1" % (i, cases.hexs(prog)))
                    else:
                        o.append("A %d %s" % (i, cases.hexs(prog)))
                    o.append("D %d %d %d" % (i, k, k + 60))
                    return o
                hists.append(twin(ops_for))
                meta.append(("far-offset", k, warm, mode))
    # (d) a call that makes the buffer grow and THEN fails on a later line (plain, fitting, counting with and without a usable chunk
    # size): the instance stays usable — the code in front of the call is intact and the next call appends, exactly as on a caller buffer
    for mi, mode in enumerate(("plain", "fit9", "count16", "count1")):
        for nl in ((2100, 4100) if cx.tier == "quick" else (2100, 4100, 6100, 9000)):
            for pre in (0, 1):
                body = b"add rax, rbx\n" * nl + b"bogus rax\nret\n"

                def ops_for(i, mode=mode, body=body, pre=pre):
                    o = []
                    if pre:
                        o.append("A %d %s" % (i, cases.hexs(b"mov rax, 0x1234\nret")))
                    if mode.startswith("fit"):
                        o.append("K %d %s" % (i, mode[3:]))
                    if mode.startswith("count"):
                        o.append("C %d %s %s 1" % (i, mode[5:], cases.hexs(body)))
                    else:
                        o.append("A %d %s" % (i, cases.hexs(body)))
                    o += ["G %d" % i, "D %d 0 40" % i, "A %d %s" % (i, cases.hexs(b"mov rax, 0x1122334455667788\nret")), "G %d" % i, "D %d 0 40" % i]
                    return o
                hists.append(twin(ops_for))
                meta.append(("fail-after-growth", nl, pre, mode))
    # (e) a long program, the position moved BACK (to patch the beginning), then forward to the old end again and more code: everything
    # assembled before is still there
    for nl in ((700, 1300) if cx.tier == "quick" else (700, 1300, 2500, 3400)):
        for back in (0, 10, 5990):
            for mi, mode in enumerate(("plain", "fit16", "count8")):
                body = b"mov rax, 0x1122334455667788\n" * nl
                end = 10 * nl

                def ops_for(i, mode=mode, body=body, back=back, end=end):
                    o = ["A %d %s" % (i, cases.hexs(body)), "O %d %d" % (i, back)]
                    if mode.startswith("fit"):
                        o.append("K %d %s" % (i, mode[3:]))
                    o.append(("C %d 8 %s 1" if mode.startswith("count") else "A %d %s") % (i, cases.hexs(b"mov rbx, 0x8877665544332211")))
                    o += ["O %d %d" % (i, end), "A %d %s" % (i, cases.hexs(b"mov rcx, 0x1\nret")), "G %d" % i,
                          "D %d %d %d" % (i, max(0, end - 6100), end + 12), "D %d 0 64" % i]
                    return o
                hists.append(twin(ops_for))
                meta.append(("rewind", nl, back, mode))
    ops, out = tie_api_mod_lf(cx, impl, hists, "C08 internal buffer vs large caller buffer")
    # failing-input search when the recorded length of a library-managed buffer is not the model's: a length that drifts from the mapping
    # shows as a refused or crashing growth once the program is long enough — programs of 120 kB, 420 kB and 1.2 MB of code
    if any(b.get("op", "").startswith("B ") for b in cx.broken):
        for nlines in (60000, 210000, 600000):
            prog = b"xor eax, eax\n" + b"inc eax\n" * nlines + b"ret\n"
            want = "31c0" + "ffc0" * nlines + "c3"
            try:
                rc_, o_, e_ = alv.run_driver(impl, ["N 0 -", "A 0 %s" % cases.hexs(prog), "G 0", "D 0 0 %d" % (2 * nlines + 3), "F 0"])
            except Exception as ex:
                rc_, o_, e_ = -1, [], str(ex)
            bad_long = None
            if rc_ != 0 or len(o_) < 4:
                bad_long = "the process does not survive the long program (exit %s)" % rc_
            elif o_[1].split()[0] != "0":
                bad_long = "a program of %d bytes of code is refused on a buffer the library manages (return value %s, offset %s)" % (2 * nlines + 3, o_[1].split()[0], o_[2])
            elif o_[3] != want:
                bad_long = "the code of the long program is not what its lines assemble to"
            if bad_long:
                cx.violations.append({"kind": "long-program", "lines": nlines + 2, "program": "xor eax, eax; %d x inc eax; ret" % nlines, "what": bad_long,
                                      "stderr": (e_ or "")[-300:]})
                break
    # oracle: internal and caller-buffer runs agree op by op (return values, offsets, dumped bytes)
    pos, nviol, ngrow = 0, 0, 0
    for m, h in zip(meta, hists):
        o = out[pos:pos + len(h)]
        pos += len(h)
        if len(o) < len(h):
            break
        body = h[2:-5]
        half = len(body) // 2
        oi, oe = list(o[2:2 + half]), list(o[2 + half:2 + 2 * half])
        for j in range(half):
            if body[j].startswith("D "):   # the internal dump is clipped at the (smaller) buffer length
                L = min(len(oi[j]), len(oe[j]))
                oi[j], oe[j] = oi[j][:L], oe[j][:L]
        if int(o[-3]) > 6020:
            ngrow += 1
        if (oi != oe or o[-5] != o[-4]) and nviol < 5:
            nviol += 1
            k = next((j for j in range(half) if oi[j] != oe[j]), None)
            cx.violations.append({"kind": "growth", "case": list(m), "first_difference": None if k is None else
                                  {"op_internal": body[k][:120], "internal": oi[k][:200], "caller_buffer": oe[k][:200]},
                                  "offsets": [o[-5], o[-4]],
                                  "what": "library-managed buffer and large caller buffer disagree", "history": [x[:300] for x in h]})
    # executable after growth: code placed behind the growth point runs (implementation only)
    xops = ["N 0 -", "O 0 %d" % (Q - 3), "A 0 %s" % cases.hexs(b"nop\n" * 40 + b"mov rax, 0x1234\nret"), "B 0", "O 0 0",
            "A 0 %s" % cases.hexs(b"jmp %d" % (Q - 3 - 5)), "X 0", "F 0"]
    try:
        xo = run_impl(impl, xops)
        cx.oblige("code behind the growth point executes (jmp into the grown region, returns 0x1234)", xo[6] == "1234", json.dumps(xo))
        if xo[6] != "1234":
            cx.violations.append({"kind": "exec", "ops": xops, "out": xo})
    except ImplCrash as e:
        cx.violations.append({"kind": "crash", "op": e.op, "stderr": e.err[-800:], "what": "executing code behind the growth point"})
    cx.nontrivial.update(meta)
    cx.cov["samples"] = [[x[:160] for x in hists[3]]]
    cx.dist = {"offset_jump_cases": sum(1 for m in meta if m[0] == "jump"), "long_programs": sum(1 for m in meta if m[0] == "long"),
               "cases_where_the_buffer_grew": ngrow, "growth_points": list(qs),
               "modes": ["plain", "fitting 7/9/13/16", "counting 16"]}
    cx.assumptions.append("mremap keeps contents and protection (the harness forces a MOVE on every growth by mapping a PROT_NONE page behind the buffer)")
    return finish(cx, "internal instance vs 40000-byte caller buffer, same calls: offsets -21..+21 around each growth point (6000*q) x "
                  "plain / fitting (chunk 7,9,13,16) / counting, reached after all earlier growths happened; genuinely long programs "
                  "(3000*q lines) as one call or two; every growth is forced to move the mapping; plus execution of code behind the growth "
                  "point; distinct = distinct (kind, q, delta, mode)")


def check_C15(cx):
    thms = ["AL.Properties.C15." + t for t in ["same_result", "same_bytes", "same_count", "counting_restores", "failed_call_harmless",
            "after_history", "agree_of_J", "index_tables_deterministic"]] + ["AL.Lemmas.emitOne_agree", "AL.Lemmas.runCodes_agree"]
    info = stage_proofs(cx, "AL.Properties.C15", thms)
    impl = build_impl(cx)
    if not (info and impl):
        return finish(cx, "")
    g = cases.Gen(cx.seed, info["tables"])
    r = g.r
    pool = cases.REPR_LINES
    good = [b"mov rax, rbx\nret", b"vaddpd ymm3, ymm2, ymm1\nrorx rax, rbx, 5", b"mulx r8, r9, r10\nvmovupd [rdx], ymm3",
            b"lea r15, [rax+rsp]\nlea r15, [2*rax]\nmov rax, 0x1"]
    bad = [b"bogus", b"mov rax, rbx\nmov rax, [rbx\nret", b"add rax, rbx, rcx, rdx, rsi", b"nop11 word -1\nimul r9, word [0x10+4*r13], 0x8000000000000000",
           b"jmp 18446744073709551616\nmov rax, 0x10000000000000000\nadd rax, 99999999999999999999999"]
    alphabet = (["A %s" % cases.hexs(t) for t in good] + ["A %s" % cases.hexs(t) for t in bad] +
                ["C 5 %s 1" % cases.hexs(good[0]), "C 0 %s 1" % cases.hexs(good[1]), "C 7 %s 0" % cases.hexs(good[0]),
                 "C 3 %s 1" % cases.hexs(bad[1]), "K 8", "K 16", "K 0", "S all 0", "S mov 1", "S sib 0", "O 3", "O 60",
                 "OTHER"])
    finals = [("A", good[3]), ("A", good[1] + b"\nmov rax, 0x1122334455667788\njmp 5\nadd rcx, 0x10\nret"), ("A", bad[1]), ("C", good[2])]
    import itertools
    hists, meta = [], []
    maxlen = 3 if cx.tier == "thorough" else 2

    def build(seq, setting, fin, k, n=160):
        """history + final block on instance 0, then the twin: a fresh instance that only gets the
        history's SETTING calls (setters, chunk size) — assemblies, counting calls, failures and
        offset moves must not matter — and the same final block.  With `setting` given, the final
        block additionally re-sets every option and the chunk size explicitly."""
        kind, text = fin
        call = ("A 0 %s" % cases.hexs(text)) if kind == "A" else ("C 0 6 %s 1" % cases.hexs(text))
        explicit = []
        if setting is not None:
            mov, swap, nb, chunk = setting
            explicit = ["S 0 mov %d" % mov, "S 0 swap %d" % swap, "S 0 nobase %d" % nb, "K 0 %d" % chunk]
        tail = explicit + ["O 0 %d" % k, call, "G 0", "D 0 %d %d" % (k, n), "A 0 %s" % cases.hexs(b"ret"), "G 0"]
        h = ["N 0 %d %02x" % (n, r.choice([0, 0xcc, 0xff]))]
        twin = []
        for op in seq:
            if op == "OTHER":
                # another instance is created, used and destroyed meanwhile
                h += ["N 1 64 00", "S 1 all 0", "A 1 %s" % cases.hexs(good[0]), "K 1 4", "F 1"]
            else:
                parts = op.split(" ", 1)
                h.append(parts[0] + " 0 " + parts[1])
                if parts[0] in ("S", "K"):
                    twin.append(parts[0] + " 0 " + parts[1])
        h += tail + ["F 0", "N 0 %d %02x" % (n, 0x5a)] + twin + tail + ["F 0"]
        return h, len(tail), len(explicit)
    settings = [(2, 1, 1, 0), (0, 0, 0, 8), (1, 1, 0, 5)]
    for n in range(0, maxlen + 1):
        for seq in itertools.product(alphabet, repeat=n):
            si = (len(hists)) % len(settings)
            fin = finals[len(hists) % len(finals)]
            k = [0, 5, 17][len(hists) % 3]
            h, tl, ne = build(seq, settings[si] if len(hists) % 2 else None, fin, k)
            hists.append(h)
            meta.append((tl, ne))
    # the SAME option-sensitive text before and after an option change (whatever an instance remembers about a line it has seen —
    # a parse cache, a memo of the last record — was computed under the old options): assembled / counted, a failing call or
    # another instance in between, then the options are set anew and the text comes again, also in another spelling
    sens = [b"mov rax, 0x1", b"lea r15, [rax+rsp]", b"lea r15, [2*rax]", b"mov rcx, 0x00000000ffffffff", b"vaddpd ymm1, ymm2, [1*rsp+8]"]
    states = [(0, 0, 0), (1, 1, 1), (2, 1, 1), (1, 0, 1), (0, 1, 0)]
    for ti, t in enumerate(sens):
        for bi, before in enumerate(states):
            for ai, after in enumerate(states):
                if before == after or (cx.tier == "quick" and (ti + bi + ai) % 2):
                    continue
                for variant in range(3):
                    seq = ["S mov %d" % before[0], "S swap %d" % before[1], "S nobase %d" % before[2]]
                    first = [b"nop\n" + t, t, b"ret\n" + t + b"\n"][variant]
                    seq.append(("A %s" if (ti + variant) % 2 == 0 else "C 4 %s 1") % cases.hexs(first))
                    if variant == 1:
                        seq.append("A %s" % cases.hexs(b"mov rax, \x80"))      # fails in the character filter: nothing is parsed
                    if variant == 2:
                        seq.append("OTHER")
                    again = [t, t.upper().replace(b"0X", b"0x").replace(b",", b" ,  "), b"; c\nl1:\n" + t + b" ; again\nret"][variant]
                    h, tl, ne = build(seq, (after[0], after[1], after[2], 0), ("A", again), [0, 3, 17][variant])
                    hists.append(h)
                    meta.append((tl, ne))
    # several library-managed instances alive at once (created one after the other: their mappings are neighbours); a default-sized one
    # and a grown one are destroyed, in both orders, with and without creates in between, before the final call on the first one: what
    # is done with OTHER instances' mappings must not reach it
    grow = cases.hexs(b"mov rax, 0x1122334455667788\n" * 1300)
    kills = [["F 1", "F 2"], ["F 2", "F 1"], ["F 1", "N 1 -", "F 2", "F 1"],
             ["F 1", "F 2", "N 1 -", "N 2 -", "A 2 %s" % grow, "F 2", "F 1"]]
    for kill in kills:
        for fin in finals[:2]:
            h, tl, ne = build([], None, fin, 5)
            i_tw = max(i for i, x in enumerate(h) if x.startswith("N 0 "))
            h = ["N 0 -", "A 0 %s" % cases.hexs(good[0]), "N 1 -", "N 2 -", "A 2 %s" % grow] + kill + h[1:i_tw] + ["N 0 -"] + h[i_tw + 1:]
            hists.append(h)
            meta.append((tl, ne))
    # twenty library-managed instances that each grew by four megabytes and were destroyed (80 MB in total) in front of the final call on
    # a library-managed instance that has to grow itself: what the library accounts per process must have been given back
    cyc = []
    for _ in range(20):
        cyc += ["N 1 -", "O 1 4000000", "A 1 %s" % cases.hexs(b"nop"), "F 1"]
    for fin in finals[:2]:
        h, tl, ne = build([], None, fin, 5)
        i_tw = max(i for i, x in enumerate(h) if x.startswith("N 0 "))
        body = [x.replace("O 0 5", "O 0 3000000") if x == "O 0 5" else x for x in h[1:i_tw]]
        body2 = [x.replace("O 0 5", "O 0 3000000") if x == "O 0 5" else x for x in h[i_tw + 1:]]
        body = [("D 0 3000000 3000160" if x.startswith("D 0 5 ") else x) for x in body]
        body2 = [("D 0 3000000 3000160" if x.startswith("D 0 5 ") else x) for x in body2]
        hists.append(cyc + ["N 0 -"] + body + ["N 0 -"] + body2)
        meta.append((tl, ne))
    nex = len(hists)
    for _ in range(300 if cx.tier == "quick" else 3000):
        seq = [r.choice(alphabet) for _ in range(r.choice([4, 6, 10]))]
        setting = (r.choice([0, 1, 2]), r.choice([0, 1]), r.choice([0, 1]), r.choice([0, 1, 2, 5, 8, 16]))
        fin = (r.choice(["A", "C"]), b"\n".join(r.choice(pool) for _ in range(r.choice([1, 3, 5]))))
        h, tl, ne = build(seq, setting if r.random() < 0.4 else None, fin, r.choice([0, 1, 9, 10, 13, 40]))
        hists.append(h)
        meta.append((tl, ne))
    ops, out = tie_api_mod_lf(cx, impl, hists, "C15 histories vs fresh instance")
    pos, nviol = 0, 0
    for (tl, ne), h in zip(meta, hists):
        o = out[pos:pos + len(h)]
        pos += len(h)
        if len(o) < len(h):
            break
        # outputs of the final block after the history vs on the fresh twin
        fresh = list(o[len(h) - tl - 1: len(h) - 1])
        first_f = len(h) - 1 - h[::-1].index("F 0", 1)   # the F that ends the history instance
        used = list(o[first_f - tl: first_f])
        # compare the dumped bytes only from the starting offset up to the new offset (what lies
        # behind it is the caller's old buffer contents, which differ on purpose)
        kk = int(h[len(h) - 1 - tl + ne].split()[2])
        for blk in (used, fresh):
            try:
                newoff = int(blk[ne + 2])
                blk[ne + 3] = blk[ne + 3][: max(0, 2 * (newoff - kk))]
            except ValueError:
                pass
        if used != fresh and nviol < 5:
            nviol += 1
            cx.violations.append({"kind": "history", "after_history": used[ne:], "fresh": fresh[ne:],
                                  "what": "the same call with the same options, chunk setting and offset behaves differently after this history "
                                          "than on a fresh instance", "history": [x[:200] for x in h]})
    # the reference from ANOTHER process: state kept outside the instances (a static, errno, a cache) would hit the history instance and
    # its fresh twin alike — the twin's calls are run once more alone in a new process (a sample of the histories, and every history the
    # model disagreed on)
    def twin_alone(h, tl):
        first_f = len(h) - 1 - h[::-1].index("F 0", 1)
        seg = h[first_f + 1:]                       # N .. settings .. the final block .. F of the twin
        try:
            sub = tie_table_for(impl, [seg])
            rc_, o_, e_ = alv.run_driver(impl, sub + seg)
        except ImplCrash:
            return None
        return o_[len(sub):] if rc_ == 0 else None
    suspects = set()
    for b in cx.broken:
        if "op_index" in b:
            q, acc = b["op_index"], 0
            for hi, h in enumerate(hists):
                if acc <= q < acc + len(h):
                    suspects.add(hi)
                acc += len(h)
    sample = sorted(suspects)[:6] + [i for i in range(len(hists)) if zlib.crc32(b"twin%d" % i) % max(1, len(hists) // 40) == 0][:50]
    pos_of, acc = {}, 0
    for hi, h in enumerate(hists):
        pos_of[hi] = acc
        acc += len(h)
    nalone = 0
    for hi in sample:
        h, (tl, ne) = hists[hi], meta[hi]
        o = out[pos_of[hi]:pos_of[hi] + len(h)]
        if len(o) < len(h):
            continue
        alone = twin_alone(h, tl)
        if alone is None:
            continue
        nalone += 1
        first_f = len(h) - 1 - h[::-1].index("F 0", 1)
        used = list(o[first_f - tl: first_f])
        ref = list(alone[len(alone) - tl - 1: len(alone) - 1])
        kk = int(h[len(h) - 1 - tl + ne].split()[2])
        for blk in (used, ref):
            try:
                newoff = int(blk[ne + 2])
                blk[ne + 3] = blk[ne + 3][: max(0, 2 * (newoff - kk))]
            except (ValueError, IndexError):
                pass
        if used != ref and nviol < 8:
            nviol += 1
            cx.violations.append({"kind": "history-process", "after_history": used[ne:], "fresh_instance_in_a_new_process": ref[ne:],
                                  "what": "the same call with the same options, chunk setting and offset behaves differently after this history "
                                          "than on a fresh instance in a fresh process (state kept outside the instances)",
                                  "history": [x[:200] for x in h]})
    cx.oblige("final calls of %d histories agree with the same call on a fresh instance in a new process" % nalone, nalone > 0 or not sample)
    # an earlier call that failed because the OS refused to grow the buffer (fault harness of C17): the next call at an explicit offset is
    # the call on a fresh instance
    try:
        wrap = "-Wl," + ",".join("--wrap=" + w for w in WRAPPED)
        fimpl = build_impl(cx, name="faultdrv", flavour="plain", extra_flags=(wrap,))
    except Exception as ex:
        fimpl = None
        cx.oblige("fault harness builds", False, str(ex))
    nfault = 0
    if fimpl:
        ftmp = os.path.join(alv.CACHE, "faulttmp15")
        os.makedirs(ftmp, exist_ok=True)
        for T in (100, 5990, 7000, 9000, 13000, 30000):
            for k in (1, 2, 4):
                rc_, ended_, kv_, err_ = run_fault(fimpl, "growthafter:%d" % T, "mremap", k, ftmp)
                nfault += 1
                if rc_ != 0 or not ended_:
                    cx.violations.append({"kind": "history-fault-crash", "scenario": "growthafter:%d" % T, "fault": "mremap#%d" % k, "rc": rc_, "stderr": err_,
                                          "what": "after a call that failed because growth was refused, asm_set_offset(%d) and an assemble call crash" % T})
                elif kv_.get("fired") == "1" and kv_.get("same_as_fresh") != "1":
                    cx.violations.append({"kind": "history-fault", "scenario": "growthafter:%d" % T, "fault": "mremap#%d" % k, "observed": kv_,
                                          "what": "after a call that failed because growth was refused, the call at an explicit offset differs from the "
                                                  "same call on a fresh instance"})
        cx.oblige("%d histories with a refused growth in front of a call at an explicit offset ran" % nfault, nfault > 0)
    # library-managed buffers: how much the instance has assembled (and grown) before must not matter for a call at an explicit offset
    ihists = []
    fin = b"mov rax, 0x1122334455667788\nadd rax, rcx\nret"
    for k in (0, 5990, 6021, 7000, 12001, 13000, 25000):
        for warm in (1, 2, 4):
            ihists.append(["N 0 -", "A 0 %s" % cases.hexs(b"mov rax, 0x1122334455667788\n" * (650 * warm)), "O 0 %d" % k,
                           "A 0 %s" % cases.hexs(fin), "G 0", "D 0 %d %d" % (k, k + 14), "F 0",
                           "N 0 -", "O 0 %d" % k, "A 0 %s" % cases.hexs(fin), "G 0", "D 0 %d %d" % (k, k + 14), "F 0"])
    iops, iout = tie_api_mod_lf(cx, impl, ihists, "C15 explicit offsets on used and fresh library-managed buffers")
    pos = 0
    for h in ihists:
        o = iout[pos:pos + len(h)]
        pos += len(h)
        if len(o) == len(h) and o[3:6] != o[9:12] and nviol < 8:
            nviol += 1
            cx.violations.append({"kind": "history-internal", "after_history": o[3:6], "fresh": o[9:12],
                                  "what": "the same call at the same explicit offset behaves differently on a library-managed buffer that has "
                                          "assembled (and grown) before than on a fresh one", "history": [x[:120] for x in h]})
    cx.nontrivial.update(tuple(h) for h in hists)
    cx.cov["samples"] = [hists[7], hists[-1]]
    cx.dist = {"alphabet": len(alphabet), "exhaustive_up_to_len": maxlen, "exhaustive_histories": nex, "random_histories": len(hists) - nex,
               "internal_buffer_histories": len(ihists)}
    return finish(cx, "every history of up to %d calls from a %d-call alphabet (successful and failing assemblies, counting calls incl. "
                  "NULL dest and c<2, chunk/option/offset changes, another instance created-used-destroyed) followed by explicit settings, "
                  "asm_set_offset and a final call, compared output by output with the same block on a fresh instance over a different "
                  "buffer fill; then seeded random longer histories; distinct = distinct histories" % (maxlen, len(alphabet)))


def corpus_lines(g, impl, n_random, opts=(14,)):
    """accepted canonical lines: the representative set plus generated valid lines (only those the
    implementation accepts), as (opt, str)"""
    cand = [l.decode() for l in cases.REPR_LINES + cases.LONG_LINES]
    tries = 0
    while len(cand) < len(cases.REPR_LINES) + n_random and tries < 20 * n_random:
        tries += 1
        l = g.valid_line()
        if all(32 <= ord(c) < 127 for c in l) and ";" not in l and ":" not in l:
            cand.append(l)
    res = impl_line_results(impl, [(o, l.encode()) for o in opts for l in cand])
    return [(o, l) for o in opts for l in cand if res[(o, l.encode())][0] == "0" and res[(o, l.encode())][1] != "-"], res


def is_mov_r64_imm(line):
    m = re.match(r"\s*mov\s+(r[a-z0-9]+)\s*,\s*-?(0x)?[0-9a-f]+\s*$", line.strip().lower())
    return bool(m) and not m.group(1).endswith(("d", "w", "b"))


def check_C16(cx):
    thms = ["AL.Properties.C16." + t for t in ["case_insensitive", "comment_irrelevant", "leading_blanks", "operand_blanks", "skipped",
            "skipped_lines", "crlf"]] + ["AL.Lemmas.filterGo_case", "AL.Lemmas.filterGo_comment", "AL.Lemmas.filterGo_deblank",
            "AL.Lemmas.assembleLine_of_filter"]
    info = stage_proofs(cx, "AL.Properties.C16", thms)
    impl = build_impl(cx)
    if not (info and impl):
        return finish(cx, "")
    g = cases.Gen(cx.seed, info["tables"])
    r = g.r
    try:
        corpus, res0 = corpus_lines(g, impl, 1500 if cx.tier == "quick" else 8000, opts=(14, 0, 5))
    except ImplCrash as e:
        cx.violations.append({"kind": "crash", "op": e.op, "stderr": e.err[-1500:]})
        return finish(cx, "")
    nstyles = 8 if cx.tier == "quick" else 64
    lines = []       # (opt, canonical, styled)
    for opt, l in corpus:
        smart_mov = is_mov_r64_imm(l) and (opt & 2)
        for _ in range(nstyles):
            lines.append((opt, l, cases.restyle(l, r, numbers=not smart_mov)))
    # blanks do not count, however many: indentation, column alignment and trailing blanks far beyond the 100 character line buffer
    for opt, l in corpus[::7 if cx.tier == "quick" else 1]:
        for pad in (96, 97, 98, 120, 300):
            lines.append((opt, l, " " * pad + l))
            lines.append((opt, l, "\t" * pad + l))
        if "," in l:
            lines.append((opt, l, l.replace(",", "," + " " * 110, 1)))
            lines.append((opt, l, l.replace(",", " " * 60 + "," + "\t" * 60, 1)))
        if " " in l:
            k = l.index(" ")
            lines.append((opt, l, l[:k] + " " * 150 + l[k:]))
        lines.append((opt, l, l + " " * 250))
        lines.append((opt, l, " " * 99 + l + " " * 99 + "; " + "c" * 200))
        # comments longer than any line buffer, made of text that would assemble if it were taken for code
        lines.append((opt, l, l + " ; " + "nop " * 80))
        lines.append((opt, l, l + "\t;" + " ret nop" * 700))
    ops, out = tie_lines(cx, impl, [(o, s.encode("latin1")) for o, _, s in lines], "C16 styled lines (whole per-line pipeline)")
    nviol, ndiff = 0, 0
    for (opt, canon, styled), o in zip(lines, out):
        p = o.split()
        want = res0[(opt, canon.encode())]
        got = (p[0], p[2] if p[0] == "0" else "-")
        if styled != canon:
            ndiff += 1
        if got != want and nviol < 5:
            nviol += 1
            cx.violations.append({"kind": "style", "opt": opt, "canonical": canon, "styled": styled, "canonical_bytes": want[1],
                                  "styled_result": list(got), "what": "a rewriting of case/blanks/comment/number base changed the result"})
    # programs: skipped lines inserted at every position, LF vs CRLF vs CR
    hists, meta = [], []
    for _ in range(150 if cx.tier == "quick" else 1500):
        opt = r.choice([14, 0, 5])
        body = [l for o, l in (r.choice(corpus) for _ in range(r.choice([1, 2, 4]))) if True]
        body = [l.encode() for l in body]
        for pos in range(len(body) + 1):
            ins = r.choice(cases.SKIP_LINES)
            eol = r.choice([b"\n", b"\r\n", b"\r"])
            t_plain = b"\n".join(body)
            t_ins = eol.join(body[:pos] + [ins] + body[pos:]) + r.choice([b"", eol])
            setopt = ["S 0 mov %d" % (opt & 3), "S 0 swap %d" % ((opt >> 2) & 1), "S 0 nobase %d" % ((opt >> 3) & 1)]
            h = ["N 0 300 cc"] + setopt + ["A 0 %s" % cases.hexs(t_plain), "G 0", "D 0 0 300", "O 0 0",
                 "A 0 %s" % cases.hexs(t_ins), "G 0", "D 0 0 300", "F 0"]
            hists.append(h)
            meta.append((opt, t_plain, t_ins))
            # the same on a caller buffer in which the plain program only just fits (20 bytes of room before its last instruction):
            # lines that emit nothing need no room
            lens = [len(res0[(opt, l)][1]) // 2 for l in body if res0.get((opt, l), ("1", ""))[0] == "0"]
            if len(lens) == len(body) and lens:
                n = sum(lens[:-1]) + 20 + r.choice([0, 0, 1, 6])
                if n >= sum(lens):
                    h2 = ["N 0 %d cc" % n] + setopt + ["A 0 %s" % cases.hexs(t_plain), "G 0", "D 0 0 %d" % n, "O 0 0",
                          "A 0 %s" % cases.hexs(t_ins), "G 0", "D 0 0 %d" % n, "F 0"]
                    hists.append(h2)
                    meta.append((opt, t_plain, t_ins))
    ops2, out2 = tie_api_mod_lf(cx, impl, hists, "C16 programs with skipped lines / CRLF")
    pos = 0
    for m, h in zip(meta, hists):
        o = out2[pos:pos + len(h)]
        pos += len(h)
        if len(o) < len(h):
            break
        if (o[4], o[5], o[6]) != (o[8], o[9], o[10]) and nviol < 8:
            nviol += 1
            cx.violations.append({"kind": "style-program", "opt": m[0], "plain": m[1].decode("latin1"), "rewritten": m[2].decode("latin1"),
                                  "plain_result": [o[4], o[5]], "rewritten_result": [o[8], o[9]],
                                  "what": "inserting a comment/label/section/global/blank line or changing the line terminator changed the code"})
    cx.nontrivial.update((o, s) for o, _, s in lines)
    cx.cov["samples"] = [list(lines[1]), list(lines[len(lines) // 2]), [x[:120] for x in hists[0]]]
    cx.dist = {"canonical_lines": len(corpus), "styles_per_line": nstyles, "styled_lines_different_from_canonical": ndiff,
               "programs": len(hists)}
    return finish(cx, "every accepted line of the corpus (107 representative + generated valid lines over all mnemonics and formats, 3 option "
                  "bytes) under %d seeded rewritings each (letter case, blanks/tabs at every legal position, trailing comments, hex digit case, "
                  "decimal<->hex and leading zeros except for `mov r64, imm` under SMART), compared with the canonical line's result on the "
                  "implementation; programs with comment/label/section/global/blank lines inserted at every position and LF/CRLF/CR; "
                  "distinct = distinct (options, styled text)" % nstyles)


def malformed_families(g, corpus):
    """generated malformed lines, by family (C10): (family, text)"""
    r = g.r
    out = []
    regs = cases.GPR64 + cases.GPR32 + cases.GPR16 + cases.GPR8 + cases.XMM + cases.YMM
    names = g.names
    for _ in range(1):
        # (a) unknown mnemonics: misspellings of real ones and random words
        for n in names:
            k = r.randrange(len(n))
            out.append(("mnemonic", "%s rax, rbx" % (n[:k] + r.choice("qzkw") + n[k:])))
            out.append(("mnemonic", "%sx" % n))
        for w in ["foo", "movv", "mo", "m", "addd rax, 1", "vpaddbb xmm1, xmm2, xmm3", "jmpp 5", "nop12", "nop0", "rett"]:
            out.append(("mnemonic", w))
        # (b) misspelt register tokens in each operand position and as base/index
        bad = ["rbz", "r16", "r8q", "eaz", "xmm16", "ymm16", "mm8", "axx", "sph", "r1b", "rxx", "exx", "ymm1x", "rsp0", "r15dd", "zmm0"]
        for b in bad:
            out += [("register", "mov %s, rax" % b), ("register", "mov rax, %s" % b), ("register", "mulx rax, rbx, %s" % b),
                    ("register", "mov rax, [%s]" % b), ("register", "mov rax, [rbx+%s*2]" % b), ("register", "vpaddd ymm0, ymm1, %s" % b),
                    ("register", "shld rax, %s, 3" % b), ("register", "vpaddq ymm0, ymm1, [rax+%s*2]" % b)]
        # (d) operand after an immediate, empty operands
        for l in ["mov rax, 1, rbx", "push 1, 2", "add rax, 5, rcx", "imul rax, rbx, 3, rcx", "mov , rax", "mov rax,, rbx", "mov rax, rbx,",
                  "add ,", "shld rax,, 3", "vpaddb ymm1, , ymm3", "mov rax, rbx, rcx, rdx, rsi"]:
            out.append(("operands", l))
        # (f) memory expressions
        for b in ["rax", "r13", "ebx"]:
            out += [("memory", "mov rax, [%s" % b), ("memory", "mov rax, [%s+rcx*2" % b), ("memory", "lea rax, [%s+rcx*3]" % b),
                    ("memory", "lea rax, [%s+rcx*16]" % b), ("memory", "lea rax, [%s+5*rcx]" % b), ("memory", "lea rax, [%s+0*rcx]" % b),
                    ("memory", "lea rax, [%s+2*rsp]" % b), ("memory", "lea rax, [%s+rsp*4]" % b), ("memory", "lea rax, [%s+8*esp]" % b)]
        # every way of writing a scale whose value is not 1, 2, 4 or 8: decimal numbers, products, hexadecimal, a digit glued to other characters
        bad_scales = ["0", "3", "5", "6", "7", "9", "10", "12", "16", "18", "24", "32", "64", "100", "2*3", "1*3", "4*4", "2*8", "8*8", "3*1", "4*3",
                      "0xa2", "0x10", "0x3", "0x12", "2x", "4h", "8.", "2.5", "1e1", "2_", "2#", "2(", "4)", "8'", "1\"", "2&", "4|", "2^", "2~", "2=",
                      "4?", "8@", "2`", "4{", "8}", "2<", "4>", "2/", "4\\", "8$"]
        for sc in bad_scales:
            for tpl in ("lea rax, [rbx+%s]", "mov [%s], rax", "add qword [rbx+%s+8], 1", "vpaddd ymm1, ymm2, [r9+%s-0x80]", "lea eax, [%s+0x10]"):
                out += [("scale", tpl % ("rcx*" + sc)), ("scale", tpl % (sc + "*rcx"))]
            out += [("scale", "lea rax, [rbx+r13*%s]" % sc), ("scale", "lea rax, [ebx+%s*ecx]" % sc)]
        # every invalid memory expression under every class of instruction that takes a memory operand (one, two, three operands,
        # legacy / VEX / BMI, with immediate, indirect branch)
        bad_mems = ["[rax+rsp*2]", "[rbx+4*rsp]", "[rsp+rsp]", "[esp+esp]", "[rax+rsp*8+0x10]", "[2*rsp]", "[r9+rcx*3]", "[rbx+rcx*2", "[rax+5*rdx]",
                    "[rax+esp*4]", "[r12+8*rsp-4]"]
        carriers = ["lea rax, %s", "mov rax, %s", "mov %s, rax", "mov qword %s, 5", "mov qword %s, 0x100000000", "add %s, rcx", "add dword %s, 0x12345678",
                    "inc qword %s", "push qword %s", "jmp %s", "call qword %s", "imul rax, %s, 3", "movzx eax, byte %s", "paddb xmm1, %s",
                    "movdqu %s, xmm2", "vaddpd ymm0, ymm1, %s", "vmovdqu %s, ymm3", "vpermd ymm1, ymm2, %s", "bextr rax, %s, rbx",
                    "mulx rax, rbx, %s", "shlx eax, %s, ecx", "vperm2i128 ymm0, ymm1, %s, 1", "cmovne rax, %s", "xchg %s, rdx", "shl qword %s, 3"]
        for bm in bad_mems:
            for ca in carriers:
                out.append(("memory", ca % bm))
        out += [("memory", "lea rax, [rsp+rsp]"), ("memory", "lea rax, [esp+esp]"), ("memory", "lea rax, [rsp+*4*r14*4]"),
                ("memory", "mov [rax],[rbx]"), ("memory", "lea rax, [2*rsp]"), ("memory", "lea rax, [4*rsp+0x10]"), ("memory", "lea rax, [rsp+4*rsp]")]
        # brackets that balance over the LINE but not within an operand, and brackets in the wrong place
        out += [("memory", t) for t in
                ["mov [rax, rbx]", "mov qword [rax+8, rcx]", "add [rbx+2*rcx, rdx]", "shld [rax, rbx], cl", "vmovdqu [rax, ymm1]", "mov rax], [rbx",
                 "mov [rax, [rbx]]", "lea rax, [[rbx]", "mov rax, [[rbx+8]", "vaddpd ymm0, [rax, ymm1], ymm2]", "mov [rax, 5]", "push [rax",
                 "imul rax, [rbx, 3]", "add qword [[rax], 1", "lea rax, [rbx+[rcx]"]]
    return out


def check_C10(cx):
    thms = ["AL.Properties.C10." + t for t in ["rejected_line_fails_call", "rejected_line_in_program", "reject_nonprintable",
            "reject_unknown_mnemonic", "reject_unknown_mnemonic_line", "lookup_error_rejects", "reject_unknown_register",
            "strToReg_unknown", "reject_empty_operand", "reject_unclosed_bracket", "reject_second_bracket", "reject_bad_scale", "reject_glued_scale", "reject_stack_pointer_index"]] + \
           ["AL.Properties.C10Table." + t for t in ["formCheck_all", "nonformat_strings", "reject_bad_format", "supported_forms_found"]]
    info = stage_proofs(cx, "AL.Properties.C10", thms)
    impl = build_impl(cx)
    if not (info and impl):
        return finish(cx, "")
    g = cases.Gen(cx.seed, info["tables"])
    r = g.r
    fams = malformed_families(g, None)
    # (c) every mnemonic x every operand-kind tuple (0..4 operands over r, v, y, m, i) that is not in the frozen supported list
    sup = {}
    undefined = set()
    txt = open(os.path.join(alv.LEAN, "AL", "Spec", "Supported.lean")).read()
    for m in re.finditer(r"\(\[[0-9, ]*\] /- (\w+) -/, \[(.*)\]\)", txt[:txt.index("def acceptedButUndefined")]):
        forms = ["".join(chr(int(x)) for x in f.split(",") if x.strip()) for f in re.findall(r"\[([0-9, ]*)\]", m.group(2))]
        sup[m.group(1)] = set(forms)
    for m in re.finditer(r"\(\[[0-9, ]*\] /- (\w+) -/, \[([0-9, ]*)\]\)", txt[txt.index("acceptedButUndefined"):]):
        undefined.add((m.group(1), "".join(chr(int(x)) for x in m.group(2).split(",") if x.strip())))
    sample_opd = {"r": ["rax", "ecx", "r9w", "dl"], "v": ["xmm1", "xmm9"], "y": ["ymm2", "ymm12"], "m": ["[rax]", "qword [rbx+8]"],
                  "i": ["5", "0x1234"]}
    import itertools
    kinds = [""] + ["".join(t) for n in (1, 2, 3, 4) for t in itertools.product("rvymi", repeat=n)]
    nform = 0
    for name in sorted(sup):
        for k in kinds:
            if k in sup[name] or (name, k) in undefined:
                continue
            if cx.tier == "quick" and len(k) == 4 and (zlib.crc32((name + k).encode()) % 8):
                continue
            ops = [r.choice(sample_opd[c]) for c in k]
            fams.append(("form", name + (" " + ", ".join(ops) if ops else "")))
            nform += 1
    # (e) a byte above 0x7e at every position of some lines
    for base in ["mov rax, rbx", "add qword [rsp+0x10], 5", "ret"]:
        for pos in range(len(base) + 1):
            for b in (0x7f, 0x80, 0xa0, 0xff):
                fams.append(("byte", (base[:pos].encode() + bytes([b]) + base[pos:].encode()).decode("latin1")))
    # every family line alone under all 12 option bytes (T2) ...
    lines = [(o, t.encode("latin1")) for fam, t in fams for o in (cases.OPTS if cx.tier == "thorough" or fam != "form" else (14, 0))]
    ops, out = tie_lines(cx, impl, lines, "C10 malformed families (whole per-line pipeline)")
    nviol = 0
    accepted = collections.Counter()
    fam_of = [fam for fam, t in fams for o in (cases.OPTS if cx.tier == "thorough" or fam != "form" else (14, 0))]
    for (o, t), fam, res in zip(lines, fam_of, out):
        p = res.split()
        if p[0] != "1" or p[2] != "-" or p[3] != "-":
            accepted[fam] += 1
            if nviol < 6:
                nviol += 1
                cx.violations.append({"kind": "accepted-malformed", "family": fam, "opt": o, "line": t.decode("latin1"), "result": res[:120],
                                      "what": "malformed / unencodable line was not rejected (or bytes were emitted)"})
    # ... and placed first / middle / last in a program, in all three modes: failure, nothing emitted for it
    good = [b"mov rax, rbx", b"add rcx, 0x10", b"ret"]
    hists, meta = [], []
    pick = r.sample(fams, min(len(fams), 250 if cx.tier == "quick" else 2500))
    for pidx, (fam, t) in enumerate(pick):
        bt = t.encode("latin1")
        if b"\n" in bt or b"\r" in bt:
            continue
        for posn in (0, 1, 3):
            body = good[:posn] + [bt] + good[posn:]
            pre = b"\n".join(good[:posn])
            # (a trailing d: with the debug listing switched on, asm_set_debug — it may print, it must not change what is accepted)
            for mode in ("A", "K", "C", "Ad", "Kd", "Cd"):
                if mode.endswith("d") and pidx % 2:
                    continue
                h = ["N 0 200 cc"]
                if mode[0] == "K":
                    h.append("K 0 8")
                if mode.endswith("d"):
                    h.append("V 0 1")
                call = (lambda x: "C 0 8 %s 1" % cases.hexs(x)) if mode[0] == "C" else (lambda x: "A 0 %s" % cases.hexs(x))
                h += [call(b"\n".join(body)), "G 0", "D 0 0 200", "F 0", "N 0 200 cc"]
                if mode[0] == "K":
                    h.append("K 0 8")
                h += [call(pre), "D 0 0 200", "F 0"]
                hists.append(h)
                meta.append((fam, t, posn, mode))
    ops2, out2 = tie_api_mod_lf(cx, impl, hists, "C10 malformed line first/middle/last in a program, three modes")
    pos = 0
    for m, h in zip(meta, hists):
        o = out2[pos:pos + len(h)]
        pos += len(h)
        if len(o) < len(h):
            break
        k = (1 if m[3][0] == "K" else 0) + (1 if m[3].endswith("d") else 0)
        rc = o[1 + k].split()[0]
        dump_bad, dump_pre = o[3 + k], o[-2]
        if (rc != "1" or dump_bad != dump_pre) and nviol < 10:
            nviol += 1
            cx.violations.append({"kind": "program-with-malformed-line", "family": m[0], "line": m[1], "position": m[2], "mode": m[3],
                                  "rc": rc, "buffer_with_line": dump_bad[:80], "buffer_of_preceding_lines_only": dump_pre[:80],
                                  "what": "call did not fail, or bytes were emitted for/after the malformed line", "history": h})
    cx.nontrivial.update(lines)
    cx.cov["samples"] = [list(x) for x in fams[:3]] + [list(fams[-1])]
    cx.dist = {"families": dict(collections.Counter(f for f, _ in fams)), "operand_kind_tuples_not_in_supported": nform,
               "accepted_by_family": dict(accepted), "program_placements": len(hists)}
    return finish(cx, "generated malformed lines: misspelt mnemonics (every table name), misspelt register tokens in every operand position "
                  "and as base/index, every supported mnemonic x every operand-kind tuple (0..4 operands over r,v,y,m,i) outside the frozen "
                  "supported list and the recorded finding, operands after an immediate / empty operands, unclosed brackets / bad scales / "
                  "stack pointer as index, bytes 0x7f/0x80/0xa0/0xff at every position; each alone under option bytes and first/middle/last in a "
                  "program in plain, fitting and counting mode (must fail and leave the buffer as the preceding lines alone do); "
                  "distinct = distinct (options, line)")


SITE_LEMMAS = {
    # function -> Lean statements that bound / justify its memory accesses
    "filter_assembly_str_fsa": "C09.filtered_length (filter_str[100]); reads of unfiltered_str stop at NUL (list end)",
    "str_to_instr": "C09.filtered_length; Lemmas.lineLen_first/lineLen_alone (ch_pos stays inside the text)",
    "line_to_instr": "C09.filtered_length (asm_str[100]), C09.opdtype_length (opd_type[5]); opd[i] with literal i < 4",
    "check_registers": "literal indices 0..2 of opd[4]", "all_opd_str_to_reg": "literal bound FOURTH_OPERAND = 3 of opd[4]",
    "instr_tok": "C09.instruction_length (instruction[15]); C09.instrTok_failOnly (strtok_r result not NULL)",
    "operand_tok": "C09.operandTok_failOnly (strtok_r result not NULL); recursion stops at opd_pos = 3 (opd[4])",
    "check_operand_type": "opd[opd_pos], opd_pos <= 3", "check_for_keyword": "clearstring stays inside the matched keyword prefix (Impl.clearAfterBlanks)",
    "clearstring": "length argument = length of the matched keyword", "imm_tok": "C09.immTok_failOnly; imme[2] only read when imme[1] != NUL",
    "mem_tok": "opd[opd_pos].sib via copy_index_reg (C09.indexreg_length)", "get_mod_disp": "no array access",
    "find_add_mem": "indices i-2..i+1 with 1 <= i < len: inside the NUL-terminated string (Impl.findAddMemGo guards i >= 2)",
    "find_mem_const": "indices i+1..i+3 read only behind non-NUL characters (short-circuit), Impl.findMemConstGo",
    "get_reg_str": "C09.regstr_length (str[6])", "copy_index_reg": "C09.indexreg_length (sib[6])",
    "get_index_reg": "mem[len-1] with len >= 1; mem[j+1], mem[j+2] behind a '*' that is not the last character; strchr on the NUL-terminated operand "
                     "(open_bracket + 1 is at most the terminator: open_bracket points at a '[' of the string)",
    "check_sib_disp": "no array access", "get_operand_type": "reads up to the first non-blank or NUL", "find_reg": "REG_TABLE scan stops at the empty sentinel",
    "str_to_reg": "reg[1], reg[end] inside the NUL-terminated token", "strlen_int": "reads up to NUL", "process_neg_disp": "no array access",
    "get_opcode_offset": "literal opd indices", "get_opd_format": "C09.letter_index/kind_letter (index table), scan stops at opd_error sentinel",
    "str_to_instr_key": "C09.letter_index (index table), scan stops at the NA sentinel row",
    "nop_padding": "C09.nop_index (FIXED_NOP_LENGTH[len-1], 1 <= len <= 11); writes inside the reserve (C07)",
    "assemble_within_reserve": "code[64]: assemble_asm emits at most 42 bytes (structural bound, checked under ASan); memcpy of <= 20 bytes into the reserve (C07)",
}


def check_C09(cx):
    thms = ["AL.Properties.C09." + t for t in ["no_ub_line", "lex_resolve_failOnly", "operandTok_failOnly", "instrTok_failOnly", "immTok_failOnly",
            "emitOne_failOnly", "filtered_length", "instruction_length", "regstr_length", "indexreg_length", "opdtype_length", "nop_index",
            "letter_index", "kind_letter", "table_slots_bound", "assembleSlots_length"]] + ["AL.Lemmas.items_eq_itemsL", "AL.Lemmas.assembleLine_local"]
    info = stage_proofs(cx, "AL.Properties.C09", thms)
    impl = build_impl(cx)
    if not (info and impl):
        return finish(cx, "")
    # T4: the memory-access sites of the parser are exactly the audited ones
    import sites as sites_mod
    cur = sites_mod.inventory(alv.REPO, cache_dir=alv.CACHE)
    audited = json.load(open(os.path.join(alv.HERE, "gen", "sites_audited.json")))["sites"]
    new_sites = sorted(set(cur) - set(audited))
    gone = sorted(set(audited) - set(cur))
    unmapped = sorted({x.split(":")[1] for x in cur if x.split(":")[0] != "assemblyline.c" and x.split(":")[0] in
                       ("parser.c", "tokenizer.c", "reg_parser.c", "instr_parser.c") and x.split(":")[1] not in SITE_LEMMAS
                       and not x.split(":")[1].startswith(("debug_", "check_len", "assemble"))})
    cx.oblige("T4 site inventory: %d memory-access sites in the parser/encoder = audited list" % len(cur),
              not new_sites and not gone, json.dumps({"new": new_sites[:20], "gone": gone[:20]}))
    cx.oblige("T4 every parser function with memory accesses is mapped to a bounding lemma", not unmapped, json.dumps(unmapped))
    g = cases.Gen(cx.seed, info["tables"])
    r = g.r
    # T2 under ASan+UBSan: malformed / garbage / boundary-length stream
    n = 120000 if cx.tier == "quick" else 1500000
    lines = []
    for _ in range(n):
        k = r.random()
        if k < 0.45:
            l = g.mutate(g.valid_line())
        elif k < 0.6:
            l = g.garbage()
        elif k < 0.75:
            l = g.long_line().encode("latin1")
        elif k < 0.85:
            l = g.anyform_line().encode("latin1")
        else:
            l = g.line()
        l = bytes(x for x in l if x != 0)
        lines.append((r.choice(cases.OPTS), l))
    # line lengths around the filter limit, many operands, many brackets
    for base in ["mov rax, ", "mov [rax+", "push ", "vpaddb ymm1, ymm2, [rax+", "add qword [", "jmp ", "mov rax, [rbx+rcx*2+"]:
        for target in range(90, 112):
            filt = len(base.replace(" ", ""))
            for tail in ["5", "0x5", "]", "],5", "1]", "rbx", ",rbx,rcx,rdx,rsi,rdi"]:
                pad = max(0, target - filt - len(tail))
                lines.append((14, (base + "0" * pad + tail).encode()))
    # the scanners look at the characters around brackets, signs, `*`, `x` and digits (mem[i-2] .. mem[i+3]): every ending of 1..3 such
    # characters, placed so that the line has exactly 96..101 significant characters (the terminator at the last bytes of the line buffer)
    import itertools
    alphabet = "[]+-*,0x1ra"
    endings = ["".join(t) for k in (1, 2, 3) for t in itertools.product(alphabet, repeat=k)]
    if cx.tier == "quick":
        endings = [e for i, e in enumerate(endings) if len(e) < 3 or i % 3 == cx.seed % 3]
    for head, mid in (("add [rax+0x", "1],"), ("mov rax,[rbx+0x", ""), ("mov rax,0x", ""), ("vpaddb ymm1,ymm2,[rax+rcx*2-0x", "")):
        for e in endings:
            for target in (98, 99, 100) if cx.tier == "quick" else (96, 97, 98, 99, 100, 101):
                pad = target - len(head.replace(" ", "")) - len(mid) - len(e)
                lines.append((14, (head + "0" * pad + mid + e).encode()))
    for k in range(1, 9):
        lines.append((14, ("mov " + ",".join(["rax"] * k)).encode()))
        lines.append((14, ("mov " + ",".join(["[rax]"] * k)).encode()))
        lines.append((14, ("mov rax, " + "[" * k + "rbx" + "]" * k).encode()))
    ops, out = tie_lines(cx, impl, lines, "C09 malformed/garbage/boundary stream under ASan+UBSan")
    # T3 under ASan: histories incl. chunk fitting near the buffer end (padding + instruction > reserve)
    hists = gen_histories(g, 300 if cx.tier == "quick" else 5000)
    longs = [b"mov qword [r8d+r9d*8+0x12345678], 0x12345678", b"mov rax, 0x1122334455667788", b"imul r9, [r10d+r11d*8+0x12345678], 0x12345678"]
    for nbuf in range(20, 60):
        for c in (8, 16, 24):
            for lead in (0, 1, 4):
                prog = b"\n".join([b"add rax, 1"] * lead + [longs[(nbuf + c) % 3], longs[(nbuf + lead) % 3]])
                hists.append(["N 0 %d cc" % nbuf, "K 0 %d" % c, "A 0 %s" % cases.hexs(prog), "G 0", "M 0", "F 0"])
    # the debug listing switched on (asm_set_debug): its printers see every instruction, also the longest ones the library emits
    # (16 and 17 bytes: a scaled index with disp32 behind 32-bit address registers next to an immediate that is not cut to 32 bits)
    longest = [b"add qword [rax+r9*8+0x11223344], 0x1122334455667788", b"add qword [eax+r9d*8+0x11223344], 0x1122334455667788",
               b"test qword [r8d+r9d*8+0x11223344], 0x1122334455667788", b"imul r10, [eax+r9d*8+0x11223344], 0x1122334455667788",
               b"nop11 word -1", b"mov qword [r8d+r9d*8+0x12345678], 0x12345678", b"vpaddb ymm9, ymm10, [r8d+r9d*8+0x12345678]"]
    for hi in range(0, len(hists), 3):
        if hists[hi] and hists[hi][0].startswith("N 0 "):
            hists[hi] = [hists[hi][0], "V 0 1"] + hists[hi][1:]
    for t in longest:
        prog = b"nop\n" + t + b"\nret"
        hists.append(["N 0 400 cc", "V 0 1", "A 0 %s" % cases.hexs(prog), "G 0", "C 0 8 %s 1" % cases.hexs(prog), "K 0 16", "O 0 9",
                      "A 0 %s" % cases.hexs(prog), "G 0", "M 0", "F 0"])
        hists.append(["N 0 -", "V 0 1", "A 0 %s" % cases.hexs(prog * 3), "G 0", "F 0"])
    ops2, out2 = tie_api_mod_lf(cx, impl, hists, "C09 API histories under ASan+UBSan with guard regions")
    for b in guard_violations(ops2, out2):
        cx.violations.append({"kind": "guard", **b})
    # arbitrary text through the FILE entry points: sizes at and around whole pages (a reader that maps or blocks the file has its
    # corner there), valid programs and garbage, plain and counting
    ftmp = os.path.join(alv.CACHE, "c09files_%d" % os.getpid())
    os.makedirs(ftmp, exist_ok=True)
    page = os.sysconf("SC_PAGE_SIZE")
    fh = []
    for fi, size in enumerate([0, 1, 3, page - 1, page, page + 1, 2 * page - 1, 2 * page, 2 * page + 1, 3 * page, 4 * page, 16 * page]):
        for kind in ("nops", "garbage", "longline"):
            if kind == "nops":
                content = (b"nop\n" * (size // 4 + 1))[:size]
            elif kind == "garbage":
                content = bytes(r.choice(b"movraxb[]+-*,0x19 \n\t;:%\x7f\xff") for _ in range(size))
            else:
                content = (b"ret ;" + b"c" * size)[:size]
            content = bytes(x for x in content if x != 0)
            path = os.path.join(ftmp, "f%d_%s" % (fi, kind))
            open(path, "wb").write(content)
            fh.append(["N 0 -", ("R 0 %s %s" % (path, cases.hexs(content) or "-")) if fi % 2 == 0 else ("U 0 4 %s %s 1" % (path, cases.hexs(content) or "-")), "G 0", "F 0"])
    try:
        tie_api_mod_lf(cx, impl, fh, "C09 files of whole-page sizes through the file entry points under ASan+UBSan")
    finally:
        import shutil
        shutil.rmtree(ftmp, ignore_errors=True)
    if cx.tier == "thorough":
        # uninitialised reads: valgrind memcheck over a sample of the stream (plain build)
        plain = build_impl(cx, flavour="plain")
        sample = ["L %d %s" % (o, cases.hexs(l)) for o, l in lines[:20000]]
        p = subprocess.run(["valgrind", "-q", "--error-exitcode=9", plain], input=("\n".join(sample) + "\n").encode(),
                           stdout=subprocess.DEVNULL, stderr=subprocess.PIPE, timeout=3000)
        cx.oblige("valgrind memcheck: no uninitialised / invalid access on 20000 lines", p.returncode == 0, p.stderr.decode("latin1")[-1500:])
        if p.returncode != 0:
            cx.violations.append({"kind": "valgrind", "stderr": p.stderr.decode("latin1")[-1500:]})
    rcs = collections.Counter(o.split()[0] for o in out)
    cx.nontrivial.update(lines)
    cx.cov["samples"] = [[o, l.decode("latin1")] for o, l in lines[:4]] + [hists[-1]]
    cx.dist = {"lines": len(lines), "result_codes": dict(rcs), "histories": len(hists), "sites": len(cur),
               "line_length_histogram": dict(collections.Counter(min(len(l) // 20 * 20, 200) for _, l in lines))}
    cx.assumptions.append("uninitialised reads and UB classes the model cannot express are observed by ASan/UBSan (and valgrind in the thorough tier), not proved")
    return finish(cx, "T4: clang-AST inventory of every array subscript / dereference / libc string call in the parser and encoder must equal the "
                  "audited list; T2: %d seeded malformed, garbage (all byte values), boundary-length (90..111 significant characters) and many-operand "
                  "lines under ASan+UBSan, compared with the model; T3: random API histories and chunk fitting near the end of caller buffers with guard "
                  "regions under ASan; distinct = distinct (options, line)" % len(lines))


# ------------------------------------------------------------------------------------------
# C11 — assembly modes
# ------------------------------------------------------------------------------------------

REGNUM = {n: i for i, n in enumerate(cases.GPR64)}
REGNUM.update({n: i for i, n in enumerate(cases.GPR32)})
C11_VALUES = [0, 1, 5, 0x7f, 0x80, 0xff, 0x100, 0x7fff, 0x8000, 0xffff, 0x10000, 0x12345678, 0x7ffffffe, 0x7fffffff, 0x80000000,
              0x80000001, 0xdeadbeef, 0xfffffffe, 0xffffffff, 0x100000000, 0x100000001, 0x7fffffffffffffff, 0x8000000000000000,
              0xffffffff7fffffff, 0xffffffff80000000, 0xfffffffffffffffe, 0xffffffffffffffff]


def mov_spellings(v):
    """(text, padded): the spellings of an immediate; padded = hexadecimal with all 16 digits"""
    out = [("%d" % v, False), ("0x%x" % v, len("%x" % v) >= 16), ("0x%016x" % v, True), ("0x%08x" % v, len("%08x" % v) >= 16),
           ("0X%X" % v, len("%x" % v) >= 16), ("0x%016X" % v, True), ("0x0%016x" % v, True), ("0x%015x" % v, len("%015x" % v) >= 16),
           # long tokens that are NOT hexadecimal with all 16 digits: decimal numerals padded to 18 characters and more
           ("%018d" % v, False), ("%024d" % v, False), ("%017d" % v, False)]
    if v >= 1 << 63:
        out.append(("-%d" % ((1 << 64) - v), False))
        out.append(("-0x%x" % ((1 << 64) - v), False))
    return out


def mov_expected(reg, v, narrow):
    """documented encoding of `mov r64, imm` (0 <= v < 2^64): nasm's narrowing or the kept destination"""
    n = REGNUM[reg]
    if v <= 0xffffffff and narrow:
        return (b"\x41" if n >= 8 else b"") + bytes([0xb8 + (n & 7)]) + v.to_bytes(4, "little")
    rexw = bytes([0x48 | (1 if n >= 8 else 0)])
    if v <= 0x7fffffff or v >= 0xffffffff80000000:
        return rexw + b"\xc7" + bytes([0xc0 + (n & 7)]) + (v & 0xffffffff).to_bytes(4, "little")
    return rexw + bytes([0xb8 + (n & 7)]) + v.to_bytes(8, "little")


def lea_fields(bs):
    """decode `lea r64, m`: (has67, rex, mod, reg, rm, scale, index, base, disp) or None"""
    i = 0
    h67 = False
    if bs[i] == 0x67:
        h67 = True
        i += 1
    rex = 0
    if 0x40 <= bs[i] <= 0x4f:
        rex = bs[i]
        i += 1
    if bs[i] != 0x8d:
        return None
    modrm = bs[i + 1]
    i += 2
    mod, reg, rm = modrm >> 6, (modrm >> 3) & 7, modrm & 7
    sc = idx = base = None
    if rm == 4 and mod != 3:
        sib = bs[i]
        i += 1
        sc, idx, base = sib >> 6, (sib >> 3) & 7, sib & 7
    rest = bs[i:]
    want = {0: 4 if ((base == 5) if rm == 4 else (rm == 5)) else 0, 1: 1, 2: 4}[mod]
    if len(rest) != want:
        return None
    disp = int.from_bytes(rest, "little", signed=True) if rest else 0
    return dict(h67=h67, rex=rex, mod=mod, reg=reg | ((rex >> 2) & 1) << 3, rm=rm, scale=sc,
                index=None if idx is None else idx | ((rex >> 1) & 1) << 3, base=(base if rm == 4 else rm) | (rex & 1) << 3, disp=disp)


MEM_TEMPLATES = ["lea r15, %s", "lea eax, %s", "mov rcx, %s", "mov %s, rdx", "mov dword %s, 7", "add %s, rsi", "inc qword %s", "push qword %s",
                 "and qword %s, 0xfffffffffffffff0", "add dword %s, 0x0000000000000010",
                 "movaps xmm3, %s", "vaddpd ymm1, ymm2, %s", "vmovdqu %s, ymm5", "mulx rax, rbx, %s", "shrx rax, %s, rbx", "imul rax, %s, 5",
                 "movzx eax, byte %s", "cmovne r9, %s", "xchg %s, r10", "test byte %s, 1", "movq xmm1, %s", "adc r8, %s"]


# templates whose immediate follows a memory destination: the immediate's width is C02's business (it is derived from the base
# register in the C code), so the whole-instruction comparison with the rewritten operand is not made for them
IMM_MEM_FIRST = {"mov dword %s, 7", "test byte %s, 1"}
# (the two templates with 16-digit immediates are compared in full: the immediate's width is right since the C03 fixes)


def exec_program(base, index, scale, disp, vals):
    """program returning the address `[base+index*scale+disp]` minus the stack pointer contribution, and the expected value"""
    ls = ["push rbx", "push rbp", "push r12", "push r13", "push r14", "push r15"]
    exp = disp
    uses_rsp = False
    seen = set()
    for rg, mult in ((base, 1), (index, scale)):
        if rg is None:
            continue
        if rg == "rsp":
            uses_rsp = True
            continue
        if rg not in seen:
            ls.append("mov %s, 0x%x" % (rg, vals[rg]))
            seen.add(rg)
        exp += vals[rg] * mult
    return ls, uses_rsp, exp % (1 << 64)


def check_C11(cx):
    thms = ["AL.Properties.C11." + t for t in ["other_lines_identical", "lines_identical_fn", "resolveLine_indep", "encodeIfRegs_indep",
            "optPlainB_sound", "strict_keeps_destination", "smart_follows_spelling", "narrowOk_spelling", "swap_only_when_nasm",
            "nobase_only_when_nasm", "swap_same_address", "nobase_scale2_same_address", "nobase_scale1_same_address"]] + \
           ["AL.Lemmas." + t for t in ["encodeMem_indep", "getReg_indep", "encodeImm_indep", "encodeImm_same", "encodeOperands_indep",
            "dispatchEnc_indep", "encodeImmDataTransfer_indep", "xchgAdjust_plain"]]
    info = stage_proofs(cx, "AL.Properties.C11", thms)
    impl = build_impl(cx)
    if not (info and impl):
        return finish(cx, "")
    g = cases.Gen(cx.seed, info["tables"])
    r = g.r
    OPTS = cases.OPTS
    quick = cx.tier == "quick"
    try:
        corpus, _ = corpus_lines(g, impl, 1500 if quick else 12000, opts=(14,))
    except ImplCrash as e:
        cx.violations.append({"kind": "crash", "op": e.op, "stderr": e.err[-1500:]})
        return finish(cx, "")
    corpus = sorted(set(l for _, l in corpus))
    # ---- targeted families, class known by construction --------------------------------------------------
    fam = []   # (line, class) class in A (mov r64 imm<=32 bit), B (swap), C (no base), N (none of them)
    regs = cases.GPR64 if not quick else ["rax", "rcx", "rbx", "rsp", "rbp", "rsi", "r8", "r12", "r13", "r15"]
    for rg in regs:
        for v in C11_VALUES:
            for sp, padded in mov_spellings(v):
                fam.append(("mov %s, %s" % (rg, sp), "A" if v <= 0xffffffff else "N", ("mov", rg, v, padded)))
    for rg in ["eax", "r9d", "cx", "r10w", "dl", "r11b", "ah"]:
        for v in [0, 5, 0x7f, 0x80, 0xff, 0x7fff, 0xffff, 0x7fffffff, 0x80000000, 0xffffffff]:
            fam.append(("mov %s, 0x%x" % (rg, v), "N", None))
            fam.append(("mov %s, 0x%016x" % (rg, v), "N", None))
    for m in ["qword [rax]", "dword [rbx+8]", "word [rcx]", "byte [rdx-1]"]:
        for v in [0, 5, 0x7f, 0xff, 0x7fffffff, 0x80000000, 0xffffffff]:
            fam.append(("mov %s, 0x%x" % (m, v), "N", None))
    for v in [0, 5, 0x7f, 0x80, 0x7fffffff, 0x80000000, 0xffffffff]:
        fam.append(("push 0x%x" % v, "N", None))
        fam.append(("push %d" % v, "N", None))
    disps = [None, 8, -8, 0x7f, -0x80, 0x80, -0x81, 0x12345, -0x12345]
    if quick:
        disps = [None, 8, -8, 0x80, -0x12345]
    tmpls = MEM_TEMPLATES if not quick else MEM_TEMPLATES[:14]
    shapes = []   # (text, class, (base, index, scale, disp), equivalent text or None)
    def dtxt(d):
        return "" if d is None else ("+0x%x" % d if d >= 0 else "-0x%x" % -d)
    for b in cases.GPR64:
        for d in disps:
            shapes.append(("[%s+rsp%s]" % (b, dtxt(d)), "B", (b, "rsp", 1, d or 0), "[rsp+%s%s]" % (b, dtxt(d))))
            shapes.append(("[rsp+%s%s]" % (b, dtxt(d)), "N" if b != "rsp" else "B", ("rsp", b, 1, d or 0), None))
    for b in ["eax", "ebx", "r9d", "ebp", "r13d"]:
        shapes.append(("[%s+esp]" % b, "B", None, "[esp+%s]" % b))
        shapes.append(("[%s+esp+16]" % b, "B", None, "[esp+%s+16]" % b))
    for i in cases.GPR64 + ["eax", "ebp", "r12d", "r13d"]:
        if i in ("rsp", "esp"):
            continue
        for sc in (1, 2, 4, 8):
            for d in disps:
                eq = None
                if sc == 1:
                    eq = "[%s%s]" % (i, dtxt(d))
                elif sc == 2:
                    eq = "[%s+1*%s%s]" % (i, i, dtxt(d))
                shapes.append(("[%d*%s%s]" % (sc, i, dtxt(d)), "C", (None, i, sc, d or 0) if i in REGNUM and i in cases.GPR64 else None, eq))
    # a lone unscaled stack pointer `[1*rsp+d]`: both SIB options look at it (no base AND a stack-pointer index); with the swap option
    # NASM the encoded address is the written one whatever the no-base option says (class "S": executed under 14, 6 and 4)
    for d in disps:
        shapes.append(("[1*rsp%s]" % dtxt(d), "S", (None, "rsp", 1, d or 0), None))
    for b in ["rax", "rbp", "r12", "r13"]:
        for i in ["rcx", "rbp", "r12", "r13"]:
            for sc in (1, 2, 8):
                shapes.append(("[%s+%d*%s]" % (b, sc, i), "N", (b, i, sc, 0), None))
                shapes.append(("[%s+%d*%s-4]" % (b, sc, i), "N", (b, i, sc, -4), None))
    memlines = []
    for t in tmpls:
        for sh in shapes:
            memlines.append((t % sh[0], sh[1], ("mem", t, sh)))
            if sh[3]:
                memlines.append((t % sh[3], None, None))
    fam += memlines
    all_lines = sorted(set(corpus) | set(l for l, _, _ in fam))
    cx.dist = {"corpus_lines": len(corpus), "mov_family": sum(1 for f in fam if f[2] and f[2][0] == "mov"), "memory_family": len(memlines),
               "templates": len(tmpls), "shapes": len(shapes), "options": 12}
    # ---- T2: every line under all twelve option bytes, model vs implementation ---------------------------
    keys = [(o, l.encode()) for l in all_lines for o in OPTS]
    ops, out = tie_lines(cx, impl, keys, "C11 all lines x 12 option bytes (whole per-line pipeline)")
    res = {}
    for (o, l), ln in zip(keys, out):
        p = ln.split()
        res[(o, l)] = (p[0], p[2] if p[0] == "0" and len(p) > 2 else "-")
    # ---- the guard of the theorem, from the model ---------------------------------------------------------
    rc, gout, gerr = alv.run_driver(alv.driver_path(), ["P %s" % cases.hexs(l.encode()) for l in all_lines])
    cx.oblige("model guard (optPlainB of the encoder input) evaluated for %d lines" % len(all_lines), rc == 0 and len(gout) == len(all_lines), gerr[-500:])
    if rc != 0 or len(gout) != len(all_lines):
        return finish(cx, "")
    guard = dict(zip(all_lines, gout))
    nv = 0
    def viol(v):
        nonlocal nv
        nv += 1
        if nv <= 6:
            cx.violations.append(v)
    # (a) non-interference on the implementation for every line outside the classes (theorem other_lines_identical)
    nplain = nvary = 0
    for l in all_lines:
        rs = {o: res[(o, l.encode())] for o in OPTS}
        varies = len(set(rs.values())) > 1
        nvary += varies
        if guard[l] != "0":
            nplain += 1
            if varies:
                o1 = OPTS[0]
                o2 = next(o for o in OPTS if rs[o] != rs[o1])
                viol({"kind": "interference", "line": l, "opt_a": o1, "result_a": list(rs[o1]), "opt_b": o2, "result_b": list(rs[o2]),
                      "what": "a line outside the three documented classes assembles differently under two option bytes"})
    cx.dist["lines_outside_classes"] = nplain
    cx.dist["lines_whose_bytes_vary"] = nvary
    # (b) the guard is the documented classification on the constructed families
    wrong = [(l, c, guard[l]) for l, c, _ in fam if c is not None and res[(14, l.encode())][0] == "0" and guard[l] != "-" and
             (guard[l] == "0") != (c != "N")]
    cx.oblige("the theorem's classes are the documented ones on %d constructed lines" % sum(1 for _, c, _ in fam if c), not wrong, json.dumps(wrong[:5]))
    # (c) mov r64, imm: documented bytes per mode and spelling
    nmov = 0
    for l, c, meta in fam:
        if not meta or meta[0] != "mov":
            continue
        _, rg, v, padded = meta
        for o in OPTS:
            mode = o & 3
            narrow = mode == 1 or (mode == 2 and not padded)
            want = mov_expected(rg, v, narrow).hex()
            got = res[(o, l.encode())]
            nmov += 1
            if got != ("0", want):
                viol({"kind": "mov-imm", "line": l, "opt": o, "mode": ["STRICT", "NASM", "SMART"][mode], "expected": want, "got": list(got),
                      "what": "mov r64, imm is not narrowed / kept as documented for this mode and spelling"})
    cx.dist["mov_checks"] = nmov
    # (d) SIB rewritings: bit dependence, literal form, metamorphic equivalent, executed address
    nsib = nexec = 0
    xprogs = []
    vals = {rg: r.getrandbits(44) | (1 << 44) for rg in cases.GPR64}
    for l, c, meta in memlines:
        if not meta:
            continue
        _, t, sh = meta
        shape, cls, parts, eq = sh
        rs = {o: res[(o, l.encode())] for o in OPTS}
        if all(v[0] != "0" for v in rs.values()):
            continue
        if cls in ("B", "C"):
            bit = 4 if cls == "B" else 8
            nsib += 1
            for on in (0, bit):
                grp = set(rs[o] for o in OPTS if (o & bit) == on)
                if len(grp) > 1:
                    viol({"kind": "sib-bit", "line": l, "class": cls, "results": {str(o): list(rs[o]) for o in OPTS},
                          "what": "the result depends on more than the documented option bit"})
            if eq is not None and t not in IMM_MEM_FIRST:
                leq = t % eq
                a, b = rs[bit | 2], res[(0, leq.encode())]
                if a != b:
                    viol({"kind": "sib-rewrite", "line": l, "opt": bit | 2, "got": list(a), "equivalent_line": leq, "equivalent_literal": list(b),
                          "what": "with the NASM bit the operand is not encoded as its documented rewriting"})
            elif eq is None and cls == "C" and rs[8] != rs[0]:
                viol({"kind": "sib-rewrite", "line": l, "got_nasm": list(rs[8]), "got_strict": list(rs[0]),
                      "what": "scale 4/8 without base has no rewriting, yet the no-base bit changes the bytes"})
        if t == "lea r15, %s":
            # literal form under STRICT
            if cls in ("B", "C") and rs[0][0] == "0":
                f = lea_fields(bytes.fromhex(rs[0][1]))
                ok = f is not None
                if ok and cls == "B":
                    b_ = REGNUM[shape[1:].split("+")[0]]
                    ok = f["rm"] == 4 and f["scale"] == 0 and (f["index"] & 7) == 4 and f["base"] == b_
                elif ok:
                    sc, i_ = shape[1:].split("*")
                    i_ = re.match(r"[a-z0-9]+", i_).group(0)
                    ok = f["mod"] == 0 and f["rm"] == 4 and f["scale"] == {"1": 0, "2": 1, "4": 2, "8": 3}[sc] and f["index"] == REGNUM[i_] \
                        and (f["base"] & 7) == 5 and f["disp"] == (parts[3] if parts else f["disp"])
                if not ok:
                    viol({"kind": "sib-literal", "line": l, "opt": 0, "got": list(rs[0]), "decoded": f,
                          "what": "with STRICT the operand is not encoded literally (scale, index, base fields as written)"})
            # executed address under NASM
            if parts and rs[14][0] == "0":
                pre, uses_rsp, exp = exec_program(parts[0], parts[1], parts[2], parts[3], vals)
                prog = pre + ["lea rax, %s" % shape] + (["sub rax, rsp"] if uses_rsp else []) + \
                    ["pop r15", "pop r14", "pop r13", "pop r12", "pop rbp", "pop rbx", "ret"]
                for o in ({"B": (14, 12, 6), "C": (14, 12, 10), "S": (14, 6, 4)}.get(cls, (14, 0))):
                    xprogs.append((l, o, "\n".join(prog).encode(), exp))
    cx.dist["sib_checks"] = nsib
    xops = []
    for l, o, prog, exp in xprogs:
        xops += ["N 0 -", "S 0 mov %d" % (o & 3), "S 0 swap %d" % ((o >> 2) & 1), "S 0 nobase %d" % ((o >> 3) & 1),
                 "A 0 %s" % cases.hexs(prog), "X 0", "F 0"]
    try:
        xo = run_impl(impl, xops) if xops else []
        for k, (l, o, prog, exp) in enumerate(xprogs):
            got = xo[7 * k + 5]
            nexec += 1
            if xo[7 * k + 4].split()[0] != "0" or int(got, 16) != exp:
                viol({"kind": "sib-address", "line": l, "opt": o, "program": prog.decode(), "expected_rax": "%x" % exp, "got_rax": got,
                      "assemble_result": xo[7 * k + 4], "what": "the executed lea yields an address different from the written one"})
    except ImplCrash as e:
        viol({"kind": "crash", "op": e.op[:300], "stderr": e.err[-800:], "what": "executing lea programs"})
    # the option combination is the documented function of the setter history, whichever setters (single or umbrella) produced it
    import itertools
    setters = [("mov", v) for v in (0, 1, 2)] + [(w, v) for w in ("swap", "nobase", "sib") for v in (0, 1)] + [("all", v) for v in (0, 1, 2)]

    def documented(state, w, v):
        m_, s_, n_ = state
        if w == "mov":
            return (v, s_, n_)
        if w == "swap":
            return (m_, v, n_)
        if w == "nobase":
            return (m_, s_, v)
        if w == "sib":
            return (m_, v, v)
        return (v, v, v) if v in (0, 1) else (2, s_, n_)      # asm_set_all(SMART) = asm_mov_imm(SMART)
    probes = [b"mov rax, 0x5", b"lea r15, [rax+rsp]", b"lea r15, [2*rax]", b"mov rcx, 0x0000000000000005"]
    pres = impl_line_results(impl, [(o, l) for o in cases.OPTS for l in probes])
    sstream, sexp = ["N 0 256 cc"], []
    for seq in itertools.product(setters, repeat=3):
        if quick and zlib.crc32(repr(seq).encode()) % 4 != cx.seed % 4:
            continue
        st = (2, 1, 1)
        sstream += ["S 0 mov 2", "S 0 swap 1", "S 0 nobase 1"]
        for w, v in seq:
            sstream.append("S 0 %s %d" % (w, v))
            st = documented(st, w, v)
        o = st[0] | st[1] << 2 | st[2] << 3
        for l in probes:
            sstream += ["O 0 0", "A 0 %s" % cases.hexs(l), "D 0 0 12"]
            sexp.append((len(sstream) - 1, seq, o, l))
    n3, sout, smism, scrash = alv.correspond(impl, sstream, "C11 option state reached through every sequence of three setter calls")
    cx.oblige("correspondence C11 setter histories: %d ops" % n3, not smism and not scrash, json.dumps(smism[:3]))
    for m_ in smism:
        cx.broken.append({"correspondence": "C11 setter histories", **m_})
    if scrash:
        viol({"kind": "crash", **scrash})
    for idx, seq, o, l in sexp:
        rc, b = pres[(o, l)]
        if idx < len(sout) and rc == "0" and not sout[idx].startswith(b):
            viol({"kind": "setter-history", "setters": ["%s(%d)" % x for x in seq], "documented_combination": o, "line": l.decode(),
                  "bytes": sout[idx][:24], "bytes_under_that_combination": b,
                  "what": "after this setter history the line is not assembled as under the combination the documentation assigns to it"})
            break
    cx.dist["setter_histories"] = len(sexp) // len(probes)
    cx.count(nexec + nmov + nsib, [])
    cx.oblige("executed-address oracle: %d lea programs run under NASM options" % nexec, nexec > 0 or quick and not xprogs)
    cx.dist["exec_checks"] = nexec
    cx.nontrivial.update(all_lines)
    cx.cov["samples"] = [fam[3][0], memlines[5][0], memlines[len(memlines) // 2][0], corpus[len(corpus) // 2]]
    cx.assumptions.append("the CPU executing the lea programs is the x86-64 reference for the executed-address oracle")
    return finish(cx, "every line of the corpus (representative + generated valid lines) and of the constructed families (mov r64, imm over %d values x "
                  "up to 10 spellings x %d registers; [base+rsp/esp(+disp)] and [scale*index(+disp)] shapes under %d instruction templates) under all "
                  "12 option bytes: (a) lines the model's guard puts outside the classes must give identical results under all 12 options on the "
                  "implementation, (b) the guard equals the documented class on the constructed lines, (c) mov r64, imm bytes equal the documented "
                  "narrow/kept form per mode and spelling, (d) SIB lines depend only on their bit, equal the literal encoding of the documented "
                  "rewriting with the bit, have literal fields without it, and the executed lea address equals the written one; "
                  "distinct = distinct line texts" % (len(C11_VALUES), len(regs), len(tmpls)))



# ------------------------------------------------------------------------------------------
# C01–C05 — the emitted bytes decode (reference decoder AL.Spec.X86) to the written instruction
# ------------------------------------------------------------------------------------------

def supported_forms():
    """frozen supported list: {mnemonic: set of operand-kind strings}"""
    sup = {}
    txt = open(os.path.join(alv.LEAN, "AL", "Spec", "Supported.lean")).read()
    for m in re.finditer(r"\(\[[0-9, ]*\] /- (\w+) -/, \[(.*)\]\)", txt[:txt.index("def acceptedButUndefined")]):
        forms = ["".join(chr(int(x)) for x in f.split(",") if x.strip()) for f in re.findall(r"\[([0-9, ]*)\]", m.group(2))]
        sup[m.group(1)] = set(forms)
    return sup


def enum_family(fam, level):
    p = subprocess.run([alv.driver_path(), "enum", fam, str(level)], stdout=subprocess.PIPE, stderr=subprocess.PIPE)
    items = collections.OrderedDict()
    for l in p.stdout.decode().split("\n"):
        if "\t" in l:
            t, w = l.split("\t")
            items.setdefault(t, w)
    return items


def pattern_of(want):
    out = []
    for x in want.split("#")[0].split()[1:]:
        if "[" in x:
            out.append(x[:x.index("[")])
        elif ":" in x:
            out.append(x.split(":")[0])
        else:
            out.append(re.sub(r"\d+$", "", x))
    return " ".join(out)


def equivalent_reading(text, want, got, nbytes):
    """readings that are the written operation although the decoded tokens differ"""
    w, parts = x86ref.parse_dec(want), got.split(" ; ")
    if len(parts) != 1:
        return False
    g = x86ref.parse_dec(parts[0])
    if g is None or g[2] != nbytes:
        return False
    if w[0] == "xchg" and g[0] == "xchg" and len(w[1]) == 2 and len(g[1]) == 2:
        # xchg is symmetric
        return all(x86ref.same_operand(a, b, True) for a, b in zip(w[1], reversed(g[1])))
    if w[0] == "xchg" and g[0] == "nop" and len(w[1]) == 2 and w[1][0] == w[1][1] and w[1][0] in ("w0", "q0"):
        # xchg ax, ax / xchg rax, rax change nothing (xchg eax, eax does: it clears the upper half)
        return True
    if w[0] == "mov" and g[0] == "mov" and len(w[1]) == 2 and len(g[1]) == 2 and w[1][0][0] == "q" and g[1][0] == "d" + w[1][0][1:]:
        # mov r64, imm with imm <= 0xffffffff written to the 32-bit register: zero extension gives the same value (C11 says when)
        a, b = w[1][1].split(":"), g[1][1].split(":")
        return a[0] == "i64" and b[0] == "i32" and a[1] == b[1]
    m = re.match(r"nop(\d+)$", text.strip())
    if m and g[0] == "nop" and g[2] == int(m.group(1)):
        return True
    return False


ENC = {
    "C01": dict(fam="c01", quick=(14, 0), thorough=tuple(cases.OPTS), level=(0, 0),
                rule="every instance of every integer entry of the reference opcode table whose operands are registers (all widths, r8-r15, "
                     "ah/ch/dh/bh where encodable, all synonym mnemonics), the no-operand instructions and nop..nop11"),
    "C02": dict(fam="c02", quick=(14, 2), thorough=(14, 0), level=(0, 2), mixed=(6, 10),
                rule="every entry with a memory-capable operand over base x index x scale x displacement shapes (key registers none/rax/rsp/rbp/r12/"
                     "r13/r15, both address sizes, disp8/disp32 boundaries of both signs; thorough: all 17x16x4x13x2 shapes for mov/lea/paddb/vaddpd), "
                     "with and without size keyword and in both factor orders"),
    "C03": dict(fam="c03", quick=(14, 0, 1), thorough=(14, 0, 1, 2, 13), level=(0, 1),
                rule="every entry with an immediate over the boundary values of its operand size (0, 0x7f/0x80, 0xff/0x100, 0x7fff.., 0x7fffffff/"
                     "0x80000000, 0xffffffff/0x100000000, their negatives), register and memory destinations, hex/decimal/negated spellings"),
    "C04": dict(fam="c04", quick=(14,), thorough=(14, 0), level=(0, 1),
                rule="every MMX/SSE/AVX/AVX2/BMI2/ADX entry over ALL register tuples of its register files (mm0-7, xmm/ymm0-15, 32/64-bit general "
                     "registers) and memory forms over the key shapes"),
    "C05": dict(fam="c05", quick=(14,), thorough=(14, 0), level=(0, 0),
                rule="jmp/jcc/call/jrcxz/xbegin x {no keyword, short, long} x all d in -130..129 and the 16/32-bit boundaries, decimal and hex, all "
                     "synonym spellings"),
}


def spelling_variants(t):
    """other ways of writing the same line"""
    out = [("upper", t.upper()), ("mixed", "".join(c.upper() if i % 2 else c for i, c in enumerate(t)))]
    parts = re.split(r"(\[[^\]]*\])", t)
    for i in range(0, len(parts), 2):
        parts[i] = re.sub(r"(?<![\w])(-?)(\d+)(?![\w])", lambda m: m.group(1) + "0" * (1 + len(m.group(2)) % 2) + m.group(2), parts[i])
    lz = "".join(parts)
    if lz != t:
        out.append(("leading-zero", lz))
    # a decimal displacement with leading zeros: `[rbx+010]` is rbx+10 (not octal), `[0100]` is 100
    pad = lambda m: "0" * (1 + len(m) % 2) + m
    lzd = re.sub(r"([+-])(\d+)\]", lambda m: m.group(1) + pad(m.group(2)) + "]", t)
    lzd = re.sub(r"\[(\d+)\]", lambda m: "[" + pad(m.group(1)) + "]", lzd)
    if lzd != t:
        out.append(("leading-zero-disp", lzd))
    return out


def nop_items():
    return collections.OrderedDict(("nop%d" % n if n > 1 else "nop", "nop #%d" % n) for n in range(1, 12))


POISON_LINES = [b"jmp 18446744073709551616", b"mov rax, 0x10000000000000000", b"add rax, 99999999999999999999999", b"mov rax, [0x100000000000000000]",
                b"jmp -18446744073709551617", b"bogus rax", b"mov rax, rbz", b"mov rax, [rbx", b"mov rax, [rbx+rcx*3]", b"mov , rax", b"mov rax, 1, 2",
                b"add " + b"r" * 120, b"mov rax, \xff", b"nop12", b"vaddpd ymm1, ymm2, ymm16", b"lea rax, [rsp+rsp]"]


def check_enc(cx):
    cfg = ENC[cx.prop]
    quick = cx.tier == "quick"
    thms = ENC_THEOREMS.get(cx.prop, [])
    info = stage_proofs(cx, "AL.Properties." + cx.prop, thms)
    if info and cx.prop in KERNEL_THEOREMS:
        kernel_stage(cx)
    impl = build_impl(cx)
    if not (info and impl):
        return finish(cx, "")
    items = enum_family(cfg["fam"], cfg["level"][0 if quick else 1])
    if cx.prop == "C04":
        # the family of the kernel-checked theorem C04.two_operand_forms (list-level texts) is what the String renderer writes for the
        # same entries, text by text (they are part of the family run here)
        rc_k, out_k, err_k = alv.run_driver(alv.driver_path(), ["KF4"])
        kf = out_k[0].split() if rc_k == 0 and out_k else []
        cx.oblige("the family of the kernel-checked theorem is part of the family run on the C code (driver op KF4: %s)" % " ".join(kf),
                  len(kf) == 3 and kf[0] == kf[1] and int(kf[0]) > 14000 and kf[2] == "same", err_k[-300:])
        missing4 = None
    if cx.prop == "C01":
        # the family of the kernel-checked theorem C01.every_register_form (list-level texts) is the family run here, text by text
        rc_k, out_k, err_k = alv.run_driver(alv.driver_path(), ["KF"])
        kf = out_k[0].split() if rc_k == 0 and out_k else []
        cx.oblige("the family of the kernel-checked theorem is the family run on the C code (driver op KF: %s)" % " ".join(kf),
                  len(kf) == 3 and kf[0] == kf[1] and int(kf[0]) > 50000 and kf[2] == "same", err_k[-300:])
        items.update(nop_items())
        if cx.tier == "thorough":
            # the independent re-checker on the modules of the kernel theorem: the top module, the by-name assembly and a seeded sample
            # of the 267 cell modules (each re-evaluates its 192 lines)
            rs = random.Random(cx.seed)
            mods = ["AL.Properties.Kernel.C01", "AL.Properties.Kernel.C01Parts", "AL.Properties.KernelDefs"] + \
                   ["AL.Properties.Kernel.C01_%03d" % k for k in rs.sample(range(267), 12)]
            for m_ in mods:
                p_ = alv.run(["lake", "env", "leanchecker", m_], cwd=alv.LEAN, timeout=1800)
                cx.oblige("leanchecker %s" % m_, p_.returncode == 0, (p_.stdout + p_.stderr)[-1500:])
    cx.oblige("quantifier domain enumerated from the reference opcode table (%d distinct lines)" % len(items), len(items) > 100)
    sup = supported_forms()
    opts = cfg["quick"] if quick else cfg["thorough"]
    texts = list(items)
    # the two SIB options are independent: operands they can touch (no base register, stack pointer as index) are also assembled under
    # the mixed settings (swap NASM + no-base STRICT, swap STRICT + no-base NASM)
    mixed = tuple(m for m in cfg.get("mixed", ()) if m not in opts)

    def opts_of(t):
        return opts + (mixed if ("b=-" in items[t] or ",i=4," in items[t]) else ())
    keys = [(o, t.encode()) for t in texts for o in opts_of(t)]
    # the family runs in ONE process behind lines that fail in every way the library can fail a line (numbers that overflow 64 bits,
    # unknown names, broken brackets, over-long lines): whatever a rejected line leaves behind in the process must not matter
    poison = [(14, l) for l in POISON_LINES]
    ops, out = tie_lines(cx, impl, poison + keys, "%s family x %d option bytes (whole per-line pipeline)" % (cx.prop, len(opts) + len(mixed)))
    out = out[len(poison):]
    res = {}
    for (o, l), ln in zip(keys, out):
        p = ln.split()
        res[(o, l)] = (p[0], p[2] if p[0] == "0" and len(p) > 2 else "-")
    codes = sorted(set(b for rc, b in res.values() if rc == "0" and b != "-"))
    rc, dec, err = alv.run_driver(alv.driver_path(), ["Q %s" % c for c in codes])
    cx.oblige("reference decoder ran on %d distinct encodings" % len(codes), rc == 0 and len(dec) == len(codes), err[-400:])
    if rc != 0 or len(dec) != len(codes):
        return finish(cx, "")
    decmap = dict(zip(codes, dec))
    # the reference decoder itself against binutils' objdump (validation of the spec, not of the property)
    od = x86ref.objdump([bytes.fromhex(c) for c in codes])
    rc1, dec1, _ = alv.run_driver(alv.driver_path(), ["Q1 %s" % c for c in codes])
    first = dict(zip(codes, dec1))
    dis = collections.Counter()
    disex = {}
    for c, o in zip(codes, od):
        r = x86ref.spec_vs_objdump(first.get(c, "?"), o, len(c) // 2)
        if r:
            k = re.sub(r"[0-9a-fx-]{3,}", "N", r.split(" (")[0])[:50]
            dis[k] += 1
            disex.setdefault(k, [c, decmap[c], o[0] if o else None])
    cx.oblige("reference decoder agrees with objdump on %d encodings" % len(codes), not dis, json.dumps({k: [n, disex[k]] for k, n in dis.items()})[:1500])
    # the property
    groups = collections.OrderedDict()
    nrej = nskip = nok = 0
    covered = set()
    for t in texts:
        want = items[t]
        mn = want.split()[0]
        kinds = x86ref.kinds_of(want)
        wmn = t.split()[0]
        for o in opts_of(t):
            if ",i=4," in want and not (o & 4):
                continue      # [base+rsp] under the STRICT swap option: the documented literal form, not judged
            rc, b = res[(o, t.encode())]
            if rc != "0" or b == "-":
                is_sup = kinds in sup.get(wmn, set())
                exp_rej = False
                if cx.prop == "C05":
                    d = int(want.split(":")[1].split()[0])
                    rel8only = mn in ("jrcxz",)
                    exp_rej = (" short " in t and not -128 <= d <= 127) or (rel8only and not -128 <= d <= 127) or \
                              ("short" in t and mn in ("call", "xbegin"))
                if is_sup and not exp_rej:
                    k = (mn, pattern_of(want), "rejected")
                    groups.setdefault(k, []).append((t, o, "-", "-"))
                    nrej += 1
                else:
                    nskip += 1
                continue
            covered.add((wmn, kinds))
            if cx.prop == "C05" and " short " in t and not -128 <= int(want.split(":")[1].split()[0]) <= 127:
                groups.setdefault((mn, pattern_of(want), "short accepted out of range"), []).append((t, o, b, decmap[b]))
                continue
            # the width of the displacement field is what the keyword asks for, whichever table entry the instance came from
            # (call and xbegin have a rel32 form only, jrcxz a rel8 form only: a keyword cannot select anything there)
            kw = (" short " in t or " long " in t) and mn not in ("call", "xbegin", "jrcxz")
            want_k = re.sub(r"rel\d+:", "rel32:" if " long " in t else "rel8:", want) if kw else want
            r = x86ref.compare(want_k, decmap[b], len(b) // 2, not kw)
            if r and not equivalent_reading(t, want, decmap[b], len(b) // 2):
                groups.setdefault((mn, pattern_of(want), r), []).append((t, o, b, decmap[b]))
            else:
                nok += 1
    # other spellings of the same lines (upper / mixed case, decimal numerals with leading zeros) must give the very same bytes, and a
    # second assembly of the same line after NOP padding (chunk fitting re-assembles the record) must give the same instruction
    bygroup = collections.OrderedDict()
    for t in texts:
        bygroup.setdefault((items[t].split()[0], pattern_of(items[t]), t.split()[0]), []).append(t)
    vkeys, vsrc = [], {}
    for g_, ts in bygroup.items():
        big = [t for t in ts if re.search(r"(?<![\w\[*+-])-?(\d\d+|[89])(?![\w*])", re.sub(r"\[[^\]]*\]", "", t))][:8]
        bigd = [t for t in ts if re.search(r"[+-]\d+\]|\[\d+\]", t)]
        bigd = bigd[:2] + [t for t in bigd[2:] if re.search(r"[+-](\d*[89]\d*|\d{3,})\]", t)][:3]
        for j, t in enumerate(ts[:2] + big + bigd):
            for kind, vt in spelling_variants(t):
                if kind == "leading-zero-disp":
                    if j < 2 + len(big):
                        continue
                elif (kind == "leading-zero") != (2 <= j < 2 + len(big)):
                    continue
                for o in opts:
                    if vt != t and (o, vt.encode()) not in vsrc and (o, vt.encode()) not in res:
                        vsrc[(o, vt.encode())] = (t, kind)
                        vkeys.append((o, vt.encode()))
    vops, vout = tie_lines(cx, impl, vkeys, "%s family in other spellings" % cx.prop)
    nvar = 0
    for (o, vt), ln in zip(vkeys, vout):
        p = ln.split()
        got = (p[0], p[2] if p[0] == "0" and len(p) > 2 else "-")
        t, kind = vsrc[(o, vt)]
        nvar += 1
        if got != res[(o, t.encode())]:
            groups.setdefault((items[t].split()[0], pattern_of(items[t]), "spelling (%s) changes the result" % kind), []).append(
                (vt.decode(), o, got[1], "written normally: rc=%s bytes=%s" % res[(o, t.encode())]))
    stream, expect = ["N 0 4096 cc"], []
    nops_hex = ["".join("%02x" % x for x in nb) for nb in info["tables"]["nops"]]
    for o in opts:
        stream += ["S 0 mov %d" % (o % 4), "S 0 swap %d" % (o // 4 % 2), "S 0 nobase %d" % (o // 8 % 2)]
        for g_, ts in bygroup.items():
            # two lines per group, plus one line for every further length of the emitted code (disp8 / disp32 / imm8 / imm32 / imm64 and
            # prefix variants differ in length): the record of EVERY encoding shape is assembled twice
            pick, lens_seen = list(ts[:2]), set()
            for t in ts[2:]:
                rc_, b_ = res.get((o, t.encode()), ("1", "-"))
                if rc_ == "0" and b_ != "-" and len(b_) not in lens_seen and len(pick) < 10:
                    lens_seen.add(len(b_))
                    pick.append(t)
            for t in pick:
                rc, b = res[(o, t.encode())]
                if rc == "0" and b != "-" and 2 <= len(b) // 2 <= 15:
                    # the room left in the chunk: 1, 2 and 4 bytes (a shorter form that would fit must not be substituted), and the same
                    # position after fitting was switched on AND off again (no padding at all then)
                    for room in (1, 2, 4):
                        L = len(b) // 2
                        pad = nops_hex[room - 1] if L > room else ""
                        expect.append((len(stream) + 3, o, t, pad + b, 16 - room + len(pad) // 2 + L, "room %d" % room))
                        stream += ["K 0 16", "O 0 %d" % (16 - room), "A 0 %s" % cases.hexs(t.encode()), "D 0 %d %d" % (16 - room, 16 - room + len(pad) // 2 + L)]
                    expect.append((len(stream) + 4, o, t, b, 15 + len(b) // 2, "fitting switched off again"))
                    stream += ["K 0 16", "K 0 0", "O 0 15", "A 0 %s" % cases.hexs(t.encode()), "D 0 15 %d" % (15 + len(b) // 2)]
    n2, out2, mism2, crash2 = alv.correspond(impl, stream, "%s family assembled a second time after padding" % cx.prop)
    if crash2:
        cx.violations.append({"kind": "crash", **crash2})
    for m in mism2:
        cx.broken.append({"correspondence": "second assembly after padding", **m})
    cx.oblige("correspondence %s family assembled next to a chunk boundary (chunk size 16; 1, 2, 4 bytes of room; fitting switched off again): %d calls" % (cx.prop, len(expect)),
              not mism2 and not crash2, json.dumps(mism2[:3]))
    for idx, o, t, b, endoff, what_ in expect:
        # (the bytes behind the instruction may be left over from an earlier line of this stream: the offset the call returns counts too)
        if idx < len(out2) and (out2[idx] != b or out2[idx - 1] != "0 %d" % endoff):
            groups.setdefault((items[t].split()[0], pattern_of(items[t]), "assembly next to a chunk boundary differs (%s)" % what_), []).append(
                (t, o, out2[idx] + " (call returns " + out2[idx - 1] + ")", "expected (padding + the code of the line alone): " + b))
    # the family in ONE call: programs of 40 accepted lines (seeded order) must give the concatenation of the lines' own code — whatever
    # a call carries from line to line (a record that is not rebuilt, a lookup hint, a VEX field) shows here and not in a single line
    rr = random.Random(cx.seed * 7919 + 5)
    for o in opts:
        acc_l = [t for t in texts if res.get((o, t.encode()), ("1", "-"))[0] == "0" and res[(o, t.encode())][1] != "-"]
        rr.shuffle(acc_l)
        ngroups = min(len(acc_l) // 40, 400 if quick else 4000)
        pstream, pexp = ["N 0 4096 cc", "S 0 mov %d" % (o % 4), "S 0 swap %d" % (o // 4 % 2), "S 0 nobase %d" % (o // 8 % 2)], []
        for gi in range(ngroups):
            grp = acc_l[gi * 40:(gi + 1) * 40]
            code = "".join(res[(o, t.encode())][1] for t in grp)
            pexp.append((len(pstream) + 1, grp, code))
            pstream += ["O 0 0", "A 0 %s" % cases.hexs("\n".join(grp).encode()), "D 0 0 %d" % (len(code) // 2)]
        if not pexp:
            continue
        try:
            pout = run_impl(impl, pstream)
        except ImplCrash as e:
            cx.violations.append({"kind": "crash", "op": e.op[:300], "stderr": e.err[-800:], "what": "a program of 40 family lines in one call"})
            continue
        for idx, grp, code in pexp:
            if idx + 1 < len(pout) and (pout[idx].split()[0] != "0" or pout[idx + 1] != code):
                # find the first line whose code differs
                got, pos_, badline = pout[idx + 1], 0, None
                for t in grp:
                    b = res[(o, t.encode())][1]
                    if got[pos_:pos_ + len(b)] != b:
                        badline = t
                        break
                    pos_ += len(b)
                groups.setdefault(((badline or grp[0]).split()[0], "in a program", "one call of 40 lines differs from the lines' own code"), []).append(
                    (badline or "?", o, got[pos_:pos_ + 40], "alone: " + (res[(o, badline.encode())][1] if badline else "?") + " ; program: " + " / ".join(grp[:12])))
                break
    if cx.prop == "C05":
        # far-memory targets: the width of the far pointer (REX.W) is a matter of the mnemonic and the size keyword, never of the address
        # registers — every `call far` / `jmp far` line with the same keyword carries the same REX.W
        farw = {}
        for t in texts:
            mfar = re.match(r"^(call|jmp) far (qword |dword |word )?\[", t)
            if not mfar:
                continue
            for o in opts_of(t):
                rc, b = res.get((o, t.encode()), ("1", "-"))
                if rc != "0" or b == "-":
                    continue
                bs_ = bytes.fromhex(b)
                i_ = 1 if bs_[:1] == b"\x67" else 0
                w_ = bool(0x40 <= bs_[i_] <= 0x4f and bs_[i_] & 8)
                farw.setdefault((mfar.group(1), mfar.group(2) or ""), {}).setdefault(w_, []).append((t, o, b))
        for (mn_, kw_), byw in farw.items():
            if len(byw) == 2:
                minority = min(byw.values(), key=len)
                t_, o_, b_ = minority[0]
                groups.setdefault((mn_ + " far", "m", "far pointer width (REX.W) differs from the other %s far %slines" % (mn_, kw_)), []).append(
                    (t_, o_, b_, "%d lines with REX.W = %s, %d without" % (len(byw.get(True, [])), "1", len(byw.get(False, [])))))
    if cx.prop == "C02":
        # an immediate that does not fit the destination must not cost the line its memory operand: same bytes in front of the immediate
        # field as with the immediate 5 (fixed defect 4fe4638: `mov qword [rax], 0x100000000` became `mov rax, imm64`)
        stores = [t for t in texts if re.match(r"^mov (qword|dword|word|byte) \[[^\]]*\], 0x5$", t)]
        bkeys, bref = [], []
        for t in stores:
            k = {"qword": 4, "dword": 4, "word": 2, "byte": 1}[t.split()[1]]
            for big in ("0x100000000", "0x123456789a", "0xffffffffffff", "0x8000000000000000", "0x7fffffffffffffff"):
                for o in opts_of(t):
                    bkeys.append((o, t.replace("0x5", big).encode()))
                    bref.append((res[(o, t.encode())], k, t))
        bops, bout = tie_lines(cx, impl, bkeys, "C02 stores of immediates wider than the destination")
        for (o, bt), ln, (ref, k, t) in zip(bkeys, bout, bref):
            p_ = ln.split()
            got = (p_[0], p_[2] if p_[0] == "0" and len(p_) > 2 else "-")
            if ref[0] == "0" and (got[0] != "0" or len(got[1]) != len(ref[1]) or got[1][:-2 * k] != ref[1][:-2 * k]):
                groups.setdefault(("mov", pattern_of(items[t]), "a wide immediate changes the bytes in front of the immediate field"), []).append(
                    (bt.decode(), o, got[1], "with the immediate 5: " + ref[1]))
        cx.dist_extra = {"wide_immediate_stores": len(bkeys)}
    if cx.prop == "C03":
        # the flagship (theorems C03.mov_r64_*): `mov r64, v` for seeded random and boundary v, all 16 registers, four spellings, the three
        # mov-immediate modes; oracle: the three encodings of AL.Spec.MovImm.movBytes, computed here independently
        rr = random.Random(cx.seed * 7919 + 3)
        vals = [0, 1, 0x7f, 0x80, 0x7fffffff, 0x80000000, 0xffffffff, 0x100000000, 0x7fffffffffffffff, 0x8000000000000000,
                0xffffffff00000000, 0xffffffff00000001, 0xffffffff7fffffff, 0xffffffff80000000, 0xffffffffffffffff]
        vals += [rr.getrandbits(rr.choice([8, 16, 31, 32, 33, 48, 63, 64])) for _ in range(60 if quick else 1500)]
        vals += [(1 << 64) - 1 - rr.getrandbits(rr.choice([8, 31, 32])) for _ in range(20 if quick else 300)]
        regs = ["rax", "rcx", "rdx", "rbx", "rsp", "rbp", "rsi", "rdi"] + ["r%d" % i for i in range(8, 16)]

        def mov_bytes(n, v, nar):
            le = lambda k, x: x.to_bytes(k, "little")
            if v >= 0xffffffff80000000:
                return bytes([0x48 + n // 8, 0xc7, 0xc0 + n % 8]) + le(4, v % 2 ** 32)
            if v <= 0xffffffff:
                if nar:
                    return (b"\x41" if n >= 8 else b"") + bytes([0xb8 + n % 8]) + le(4, v)
                if v < 0x80000000:
                    return bytes([0x48 + n // 8, 0xc7, 0xc0 + n % 8]) + le(4, v)
            return bytes([0x48 + n // 8, 0xb8 + n % 8]) + le(8, v)
        mkeys, mexp = [], []
        for v in vals:
            for n in ([rr.randrange(16), rr.randrange(16)] if quick else range(16)):
                pad = rr.choice([0, 0, 1, 3, 20])
                for sp in range(4):
                    if sp == 0:
                        tok, val, full = "0x" + "0" * pad + "%x" % v, v, len("%x" % v) + pad >= 16
                    elif sp == 1:
                        tok, val, full = "-0x" + "0" * pad + "%x" % v, (-v) % 2 ** 64, len("%x" % v) + pad + 3 >= 18
                    elif sp == 2:
                        tok, val, full = "0" * pad + "%d" % v, v, False
                    else:
                        tok, val, full = "-" + "0" * pad + "%d" % v, (-v) % 2 ** 64, False
                    for o in (0, 1, 2):
                        nar = (not full) if o == 2 else o == 1
                        mkeys.append((o | 12, ("mov %s, %s" % (regs[n], tok)).encode()))
                        mexp.append(mov_bytes(n, val, nar).hex())
        mops, mout = tie_lines(cx, impl, mkeys, "C03 mov r64, v over random and boundary values")
        for (o, t), ln, want_b in zip(mkeys, mout, mexp):
            p_ = ln.split()
            if p_[0] != "0" or (p_[2] if len(p_) > 2 else "") != want_b:
                groups.setdefault(("mov", "r64 imm", "not the encoding movBytes of the flagship theorem"), []).append(
                    (t.decode(), o, p_[2] if len(p_) > 2 else "-", "expected " + want_b))
        # the ALU family (theorems C03.alu_r64_*): `<op> r64, v` for the eight group-1 operations, seeded random and threshold values that
        # sign-extend from 32 bits, all 16 registers, four spellings, every option byte; oracle: AL.Spec.AluImm.aluBytes, computed here
        aops = [("add", 0), ("or", 1), ("adc", 2), ("sbb", 3), ("and", 4), ("sub", 5), ("xor", 6), ("cmp", 7)]
        avals = [0, 1, 0x7e, 0x7f, 0x80, 0x81, 0xdf, 0xe0, 0xe1, 0xff, 0x100, 0xfffffff, 0x10000000, 0x10000001, 0x7ffffffe, 0x7fffffff]
        avals += [(1 << 64) - x for x in (1, 2, 0x7f, 0x80, 0x81, 0xff, 0x100, 0x101, 0x7fffffff, 0x80000000)]
        avals += [rr.getrandbits(rr.choice([7, 8, 16, 28, 29, 31])) for _ in range(40 if quick else 1200)]
        avals += [(1 << 64) - 1 - rr.getrandbits(rr.choice([6, 7, 8, 16, 31])) for _ in range(30 if quick else 900)]

        def alu_bytes(n, m, v):
            if v <= 0x7f or v >= 0xffffffffffffff80:
                return bytes([0x48 + m // 8, 0x83, 0xc0 + 8 * n + m % 8, v % 256])
            head = bytes([0x48, 8 * n + 5]) if m == 0 else bytes([0x48 + m // 8, 0x81, 0xc0 + 8 * n + m % 8])
            return head + (v % 2 ** 32).to_bytes(4, "little")
        akeys, aexp = [], []
        for v in avals:
            assert v < 0x80000000 or v >= 0xffffffff80000000
            for m in ([0, rr.randrange(16), rr.randrange(16)] if quick else range(16)):
                for (mn, n) in ([rr.choice(aops)] if quick else aops):
                    pad = rr.choice([0, 0, 1, 4])
                    neg = (-v) % 2 ** 64
                    toks = ["0x" + "0" * pad + "%x" % v, "-0x" + "0" * pad + "%x" % neg, "0" * pad + "%d" % v, "-" + "0" * pad + "%d" % neg]
                    for tok in toks:
                        akeys.append((rr.choice(cases.OPTS), ("%s %s, %s" % (mn, regs[m], tok)).encode()))
                        aexp.append(alu_bytes(n, m, v).hex())
        aops_, aout = tie_lines(cx, impl, akeys, "C03 <alu op> r64, v over random and threshold values")
        for (o, t), ln, want_b in zip(akeys, aout, aexp):
            p_ = ln.split()
            if p_[0] != "0" or (p_[2] if len(p_) > 2 else "") != want_b:
                groups.setdefault((t.decode().split()[0], "r64 imm", "not the encoding aluBytes of the theorems C03.alu_r64_*"), []).append(
                    (t.decode(), o, p_[2] if len(p_) > 2 else "-", "expected " + want_b))
        cx.dist_extra = {"mov_r64_imm_lines": len(mkeys), "alu_r64_imm_lines": len(akeys)}
    for (mn, pat, reason), exs in groups.items():
        t, o, b, d = exs[0]
        cx.violations.append({"kind": "encoding", "mnemonic": mn, "operands": pat, "reason": reason, "count": len(exs), "line": t, "opt": o,
                              "bytes": b, "decoded": d, "written": items.get(t, "(another spelling of a family line)"),
                              "what": "the emitted bytes do not decode to the written instruction" if reason != "rejected" else
                                      "a supported form over encodable operands is rejected"})
    cx.count(len(keys), texts)
    relevant = {(m, f) for m, fs in sup.items() for f in fs}
    cx.dist = {"lines": len(texts), "option_bytes": list(opts), "mixed_sib_option_bytes": list(mixed), "accepted_and_correct": nok, "rejected_supported": nrej,
               "rejected_not_supported_or_expected": nskip, "distinct_encodings": len(codes),
               "other_spellings": nvar, "second_assemblies": len(expect), **getattr(cx, "dist_extra", {}),
               "supported_forms_exercised": len(covered & relevant), "violation_groups": len(groups)}
    cx.cov["samples"] = [texts[0], texts[len(texts) // 3], texts[len(texts) // 2], texts[-1]]
    cx.assumptions.append("binutils objdump is the second decoder the reference decoder is validated against; an instruction outside the reference "
                          "table's subset would be reported as undecodable, never accepted")
    return finish(cx, cfg["rule"] + "; each line assembled on the implementation under option bytes %s, its bytes decoded by the Lean reference "
                  "decoder AL.Spec.X86.decode and compared with the written instruction (mnemonic class, every operand, operand sizes, address, "
                  "immediate value after extension, displacement, total length = emitted length); distinct = distinct line texts" % (list(opts),),
                  exhaustive=cx.prop in ("C01", "C04", "C05"))


# the theorems that are decided by kernel evaluation of whole families (hundreds of generated modules): built by `alv.py setup` and by the
# thorough tier; the quick tier audits them when they are up to date with the regenerated tables and otherwise reports that they are not
# established for this tree (rebuilding takes about nine minutes) — the search for a failing input runs either way
KERNEL_THEOREMS = {
    "C01": ("AL.Properties.C01Kernel", ["AL.Properties.C01.every_register_form", "AL.Properties.Kernel.c01_every_instance",
                                        "AL.Properties.Kernel.checkK_sound", "AL.Properties.Kernel.cell_ok"]),
    "C04": ("AL.Properties.C04Kernel", ["AL.Properties.C04.two_operand_forms", "AL.Properties.Kernel.c04_two_operand_forms",
                                        "AL.Properties.Kernel.checkT_sound", "AL.Properties.Kernel.cell4_ok"]),
}


def kernel_stage(cx):
    mod, thms = KERNEL_THEOREMS[cx.prop]
    fresh = alv.lake_uptodate(mod)
    if not fresh and cx.tier == "thorough":
        ok, out, dt = alv.lake_build([mod], timeout=7200)
        cx.oblige("lake build %s (kernel modules re-checked against the regenerated tables, %.0f s)" % (mod, dt), ok, out[-3000:] if not ok else "")
        fresh = ok
    if fresh:
        axioms, bad, raw = alv.audit(mod, thms)
        cx.axioms.update(axioms)
        for t in thms:
            tb = [b for b in bad if b.startswith(t + ":")]
            cx.oblige("kernel-checked theorem %s (axioms: %s)" % (t, ", ".join(axioms.get(t, ["?"])) or "none"), not tb, "; ".join(tb))
    else:
        for t in thms:
            cx.oblige("kernel-checked theorem %s" % t, False,
                      "the kernel modules were checked against other tables than the ones regenerated from /repo/src now; the quick tier does "
                      "not rebuild them (about nine minutes: `python3 alv.py setup` or the thorough tier), so the theorem is not established "
                      "for this tree")


ENC_THEOREMS = {
    "C01": ["AL.Properties.Sweep.c01_sweep", "AL.Properties.C01.nop_table_decodes", "AL.Properties.C01.no_operand_lines", "AL.Properties.C01.letter_case_irrelevant", "AL.Properties.C01.regpair_fields"],
    "C02": ["AL.Properties.Sweep.c02_sweep", "AL.Properties.Sweep.c02_sweep_mixed", "AL.Properties.Sweep.c02_sweep_extreme", "AL.Properties.C02.disp_field_reads_back", "AL.Properties.C02.decoder_reads_every_operand", "AL.Properties.C02.mov_load_every_disp", "AL.Properties.C02.mov_load_text", "AL.Lemmas.MemText.mem_line", "AL.Lemmas.MemLoad.mem_bytes", "AL.Lemmas.MemLoad.memBytes_canonical", "AL.Spec.X86.leVal_assembleConst", "AL.Spec.X86.toSigned_roundtrip",
            "AL.Properties.C11.swap_same_address", "AL.Properties.C11.nobase_scale2_same_address", "AL.Properties.C11.nobase_scale1_same_address"],
    "C03": ["AL.Properties.Sweep.c03_sweep", "AL.Properties.Sweep.c03_sweep_padded", "AL.Properties.C03.written_number_value", "AL.Properties.C03.written_number_value_padded", "AL.Properties.C03.imm_field_reads_back", "AL.Properties.C03.imm_field_dword", "AL.Properties.C03.imm_field_qword",
            "AL.Properties.C03.mov_r64_hex", "AL.Properties.C03.mov_r64_neg_hex", "AL.Properties.C03.mov_r64_dec", "AL.Properties.C03.mov_r64_neg_dec",
            "AL.Lemmas.MovImm.mov_bytes", "AL.Lemmas.MovText.mov_line", "AL.Spec.MovImm.movResult_movBytes",
            "AL.Properties.C03.alu_r64_hex", "AL.Properties.C03.alu_r64_neg_hex", "AL.Properties.C03.alu_r64_dec", "AL.Properties.C03.alu_r64_neg_dec",
            "AL.Properties.C03.aluOps_digits", "AL.Lemmas.Alu.alu_bytes", "AL.Lemmas.Alu.aluKeys_classified", "AL.Lemmas.AluText.alu_line", "AL.Spec.AluImm.aluRead_aluBytes",
            "AL.Lemmas.assembleImm_dword", "AL.Lemmas.assembleImm_qword", "AL.Lemmas.assembleImm_reduced", "AL.Lemmas.assembleConst_pad",
            "AL.Lemmas.strtoul_dec", "AL.Lemmas.strtoul_hex", "AL.Lemmas.strtoul_neg_dec", "AL.Lemmas.strtoul_neg_hex"],
    "C04": ["AL.Properties.Sweep.c04_sweep", "AL.Properties.C04.vex2_is_vex3", "AL.Properties.C04.vex_prefix_fields", "AL.Properties.C04.vecpair_fields", "AL.Properties.C01.regpair_fields"],
    "C05": ["AL.Properties.Sweep.c05_sweep", "AL.Properties.Sweep.c05_sweep_padded", "AL.Properties.C05.rel_field_reads_back", "AL.Properties.C05.written_displacement", "AL.Properties.C03.written_number_value_padded",
            "AL.Properties.C05.rel_branch_every_d", "AL.Properties.C05.rel_branch_text_dec", "AL.Properties.C05.rel_branch_text_neg_dec",
            "AL.Properties.C05.rel_branch_text_hex", "AL.Properties.C05.rel_branch_text_neg_hex", "AL.Lemmas.BranchText.branch_line", "AL.Lemmas.Branch.relKeys_classified", "AL.Lemmas.Branch.j_bytes", "AL.Lemmas.Branch.c_bytes", "AL.Lemmas.Branch.r_bytes"],
}



# ------------------------------------------------------------------------------------------
# C17 — OS resource failures
# ------------------------------------------------------------------------------------------

WRAPPED = ["malloc", "mmap", "mremap", "munmap", "open", "fstat", "read", "close", "fopen", "fwrite", "fclose"]
OS_HARMLESS = {"free", "fprintf", "printf", "puts", "putchar", "perror", "stderr", "stdout", "memcpy", "memset", "strcasecmp", "strchr", "strcmp",
               "strlen", "strncpy", "strstr", "strtok_r", "strtoul", "tolower", "__stack_chk_fail", "_GLOBAL_OFFSET_TABLE_", "__errno_location",
               "fputc", "fputs", "putc", "snprintf", "memcmp", "strncmp", "__ctype_tolower_loc", "__ctype_b_loc"}
FAULT_SCENARIOS = ["create_int", "create_ext", "growth", "file", "file_count", "binfile"]
# histories of three file calls on one instance (short, long, short): judged against the property directly, not against the model
FAULT_FILE_HISTORIES = ["file3", "file3_count"]
# a refused growth in chunk-fitting / counting mode: the room check after the NOP padding is a growth point of its own, reached only
# for chunk sizes and alignments where the padding carries the position over the threshold
FAULT_GROWTH_BIG = ["growthbigfit:16", "growthbigcount:16", "growthbigfit:9", "growthbigcount:7"]
# one call that has to grow the buffer several times (the position was moved far ahead): each of its growth steps refused in turn
FAULT_GROWTH_FAR = ["growthfar:2", "growthfar:5"]
FAR_TEXT = b"nop\nret\n"
FAULT_GROWTH_MODES = ["growthfit:%d:%d" % (c, lead) for c in (7, 11, 13, 24) for lead in range(0, 100)] + \
                     ["growthcount:%d:%d" % (c, lead) for c in (7, 16) for lead in (0, 33, 77)]
FILE_TEXT = b"mov rcx, 0x5\nadd rcx, rdx\nnop\nret\n"
P1_TEXT = b"mov rax, 0x1122334455667788\nadd rax, rcx\nret\n"
P3_TEXT = b"xor eax, eax\nret\n"
BIG_TEXT = b"mov rdx, 0x1122334455667788\n" * 2600


def os_symbols():
    """undefined symbols of the library objects (T6)"""
    syms = set()
    d = os.path.join(alv.CACHE, "nm")
    os.makedirs(d, exist_ok=True)
    own = set()
    for f in alv.lib_c_files():
        o = os.path.join(d, os.path.basename(f) + ".o")
        p = subprocess.run(["gcc", "-w", "-std=gnu99", "-O1", "-c", "-I" + os.path.join(alv.REPO, "src"), "-I" + alv.REPO, f, "-o", o],
                           stdout=subprocess.PIPE, stderr=subprocess.PIPE)
        if p.returncode != 0:
            raise alv.BuildError(p.stderr.decode()[-2000:])
        out = subprocess.run(["nm", o], stdout=subprocess.PIPE).stdout.decode()
        for ln in out.split("\n"):
            t = ln.split()
            if len(t) == 2 and t[0] == "U":
                syms.add(t[1])
            elif len(t) == 3 and t[1] in "TDBRCdbr":
                own.add(t[2])
    return syms - own


def run_fault(exe, sc, kind, k, tmpdir, err=None):
    env = dict(os.environ)
    env.pop("FAULT_ERRNO", None)
    if err is not None:
        env["FAULT_ERRNO"] = str(err)
    env["ASAN_OPTIONS"] = "detect_leaks=0:allocator_may_return_null=1"
    p = subprocess.run([exe, sc, kind, str(k), tmpdir], stdout=subprocess.PIPE, stderr=subprocess.PIPE, timeout=120, env=env)
    out = p.stdout.decode("latin1")
    kv = {}
    for ln in out.split("\n"):
        for tok in ln.split():
            if "=" in tok:
                a, b = tok.split("=", 1)
                kv[a] = b
    return p.returncode, "END" in out.split("\n"), kv, p.stderr.decode("latin1")[-600:]


def model_fault(sc, kind, k, counts):
    """what the Lean model (AL.Impl.Faults + the API model) says the observations are for this schedule"""
    drv = alv.driver_path()
    def run(ops):
        rc, out, err = alv.run_driver(drv, ops)
        return out
    exp = {}
    ext = sc == "create_ext"
    malloc_ok = not (kind == "malloc" and k == 1)
    mmap_ok = not (kind == "mmap" and k == 1)
    c = run(["FC %d %d %d" % (ext, malloc_ok, mmap_ok)])[0]
    exp["create"] = c
    if c == "null":
        return exp
    # the instance: a refused k-th growth is a caller buffer of the size reached after k-1 growths
    if sc.startswith("growth") and kind == "mremap":
        inst = "N 0 %d 00" % (6020 + 6000 * (k - 1))
    elif ext:
        inst = "N 0 4096 cc"
    else:
        inst = "N 0 -"
    ops = [inst, "A 0 %s" % cases.hexs(P1_TEXT), "D 0 0 14"]
    if sc.startswith("growth"):
        mode, chunk, lead = (sc.split(":") + ["0", "0"])[:3]
        big = BIG_TEXT if mode == "growth" else b"mov rdx, 0x1122334455667788\n" * 40
        if mode in ("growthbigfit", "growthbigcount"):
            big = BIG_TEXT
        if mode == "growthfit":
            ops += ["O 0 %d" % (5900 + int(lead)), "K 0 %s" % chunk, "A 0 %s" % cases.hexs(big), "K 0 0"]
        elif mode == "growthcount":
            ops += ["O 0 %d" % (5900 + int(lead)), "C 0 %s %s 1" % (chunk, cases.hexs(big))]
        elif mode == "growthbigfit":
            ops += ["K 0 %s" % chunk, "A 0 %s" % cases.hexs(big), "K 0 0"]
        elif mode == "growthbigcount":
            ops += ["C 0 %s %s 1" % (chunk, cases.hexs(big))]
        elif mode == "growthfar":
            ops += ["O 0 %d" % (14 + 6000 * int(chunk)), "A 0 %s" % cases.hexs(FAR_TEXT)]
        else:
            ops += ["A 0 %s" % cases.hexs(big)]
    elif sc in ("file", "file_count"):
        reads = "-"
        if kind == "read" and k == 1:
            reads = "e"
        if kind == "shortread":
            reads = ",".join(["3"] * 40)
        fr = run(["FR %d %d %d %s %s" % (not (kind == "open" and k == 1), not (kind == "fstat" and k == 1),
                                          not (kind == "malloc" and k == 2), reads, cases.hexs(FILE_TEXT))])[0]
        exp["file_null"] = fr == "null"
        if fr == "null":
            ops += ["G 0"]
        elif sc == "file":
            ops += ["A 0 %s" % fr]
        else:
            ops += ["C 0 4 %s 1" % fr]
    elif sc == "binfile":
        ops += ["FB 0 %d %d %d" % (not (kind == "fopen" and k == 1), 7 if (kind == "fwrite" and k == 1) else 14, not (kind == "fclose" and k == 1))]
    ops += ["G 0", "A 0 %s" % cases.hexs(P3_TEXT), "F 0"]
    out = run(ops)
    exp["asm1"], exp["off1"] = out[1].split()[0], out[1].split()[1]
    exp["code1"] = out[2]
    step = out[5].split() if sc.startswith("growthfit") else out[4].split() if sc.startswith("growthcount") else \
        out[4].split() if sc.startswith("growthbigfit") or sc.startswith("growthfar") else out[3].split()
    if sc.startswith("growth"):
        exp["asm2"], exp["off2"] = step[0], step[1]
    elif sc in ("file", "file_count"):
        if exp["file_null"]:
            exp["asm2"], exp["off2"] = "1", step[0]
        else:
            exp["asm2"], exp["off2"] = step[0], step[1]
            if sc == "file_count":
                exp["count"] = step[2]
    elif sc == "binfile":
        exp["bin"] = step[0]
        exp["file_complete"] = "1" if step[1] == exp["code1"] else "0"
    exp["asm3"], exp["off3"] = out[-2].split()[0], out[-2].split()[1]
    if sc.startswith("growth") and kind == "mremap":
        # only the k-th growth is refused: the follow-up call may itself have to grow and that growth succeeds, so it runs on an
        # instance that has the room of k growths, positioned at the offset the failed call left behind
        o2 = run([("N 1 -" if sc.startswith("growthfar") else "N 1 %d 00" % (6020 + 6000 * k)), "O 1 %s" % exp["off2"],
                  "A 1 %s" % cases.hexs(P3_TEXT), "F 1"])
        exp["asm3"], exp["off3"] = o2[-2].split()[0], o2[-2].split()[1]
    exp["destroy"] = "0"
    return exp


def check_C17(cx):
    thms = ["AL.Properties.C17." + t for t in ["create_reports", "refused_growth_fails", "failed_call_keeps_code", "readFile_fails",
            "file_failure_reports", "read_error_fails", "bin_file_success_iff", "bin_file_complete"]] + \
           ["AL.Properties.C08.growth_keeps_code", "AL.Lemmas.assembleAll_post"]
    info = stage_proofs(cx, "AL.Properties.C17", thms)
    if not info:
        return finish(cx, "")
    # T6: the OS interface of the library objects
    try:
        syms = os_symbols()
    except alv.BuildError as e:
        cx.oblige("T6 undefined symbols of the library objects", False, str(e))
        return finish(cx, "")
    unknown = sorted(syms - set(WRAPPED) - OS_HARMLESS)
    cx.oblige("T6 every libc symbol the library objects reference is either wrapped by the fault harness or audited as not failing (%d symbols)" % len(syms),
              not unknown, json.dumps(unknown))
    wrap = "-Wl," + ",".join("--wrap=" + w for w in WRAPPED)
    impl = build_impl(cx, name="faultdrv", flavour="plain", extra_flags=(wrap,))
    # the histories of several file calls also run under AddressSanitizer: what a refused call leaves dangling (a released buffer that is
    # used or released again by a later call or by destroy) is an abort there, whatever the allocator happens to do with the block
    impl_asan = build_impl(cx, name="faultdrv", flavour="asan", extra_flags=(wrap,))
    if not impl:
        return finish(cx, "")
    tmpdir = os.path.join(alv.CACHE, "faulttmp")
    os.makedirs(tmpdir, exist_ok=True)
    nsched = nfired = 0
    fired_by_kind = collections.Counter()
    samples = []
    for sc in FAULT_SCENARIOS + FAULT_FILE_HISTORIES + FAULT_GROWTH_BIG + FAULT_GROWTH_FAR + (FAULT_GROWTH_MODES if cx.tier == "thorough" else FAULT_GROWTH_MODES[::2]):
        rc, ended, base, err = run_fault(impl, sc, "none", 0, tmpdir)
        if rc != 0 or not ended:
            cx.violations.append({"kind": "crash", "scenario": sc, "fault": "none", "rc": rc, "stderr": err, "what": "scenario crashes without any fault"})
            continue
        counts = {w: int(base.get(w, "0")) for w in WRAPPED}
        scheds = [("none", 0, None)] + [(w, k, None) for w in WRAPPED for k in range(1, counts[w] + 1)]
        if ":" in sc:
            scheds = [("mremap", k, None) for k in range(1, counts["mremap"] + 1)]
        else:
            # the same refusals reported with other reasons (EINTR, EAGAIN; thorough: EIO, ENOSPC too): a refused call is a refused
            # call whatever errno says
            for e_ in ((4, 11) if cx.tier == "quick" else (4, 11, 5, 28)):
                scheds += [(w, k, e_) for w in WRAPPED for k in range(1, counts[w] + 1)]
        if sc in ("file", "file_count"):
            scheds.append(("shortread", 1, None))
        for kind, k, errno_ in scheds:
            nsched += 1
            rc, ended, kv, err = run_fault(impl_asan if (sc in FAULT_FILE_HISTORIES and impl_asan) else impl, sc, kind, k, tmpdir, errno_)
            tag = {"scenario": sc, "fault": kind, "occurrence": k}
            if errno_ is not None:
                tag["errno"] = errno_
            if rc != 0 or not ended:
                cx.violations.append({"kind": "crash", **tag, "rc": rc, "stderr": err,
                                      "what": "the process does not survive the refused OS call (signal or abnormal exit)"})
                continue
            fired = int(kv.get("fired", "0"))
            if kind not in ("none", "shortread"):
                nfired += fired
                fired_by_kind[kind] += fired
                if fired != 1:
                    cx.broken.append({"obligation": "fault schedule fired", **tag, "fired": fired})
            # the property, directly on the observations
            bad = None
            if kv.get("create") == "null":
                if not ((kind == "malloc" and k == 1) or kind == "mmap"):
                    bad = "creation fails although neither its malloc nor its mmap was refused"
            else:
                if kv.get("earlier_intact") != "1":
                    bad = "code assembled earlier is not intact / retrievable after the failed call"
                elif kv.get("lenmatch", "1") != "1":
                    bad = "after the call the recorded buffer length is not the size the kernel was asked for (later growth or unmapping uses it)"
                elif kv.get("destroy") != "0":
                    bad = "the instance cannot be destroyed"
                elif kv.get("asm3") != "0" or kv.get("delta3") != "3":
                    bad = "the instance is not usable after the failed call"
                elif sc == "binfile" and kv.get("bin") == "0" and kv.get("file_complete") != "1":
                    bad = "asm_create_bin_file reports success although the complete code did not reach the file"
                elif kind in ("mremap", "open", "fstat", "read") and kv.get("asm2") != "1":
                    bad = "the refused call is not reported by the documented return value"
                elif kind == "malloc" and k == 2 and kv.get("asm2") != "1":
                    bad = "the refused allocation is not reported by the documented return value"
                elif sc in FAULT_FILE_HISTORIES and kind == "malloc" and k >= 2 and fired == 1 and kv.get("asm2") != "1":
                    bad = "the refused allocation of a later file call is not reported by the documented return value"
                elif sc in FAULT_FILE_HISTORIES and kv.get("others_ok") != "1":
                    bad = "a file call in whose course nothing was refused fails or gives other code than the same text through asm_assemble_str"
                elif kind in ("fopen", "fwrite", "fclose") and kv.get("bin") != "1":
                    bad = "the refused file operation is not reported by asm_create_bin_file"
                elif "asm2" in kv and kv["asm2"] == "1" and kv.get("off2") != kv.get("offb", kv.get("off1")):
                    bad = "the failed call changed the offset"
            if bad:
                cx.violations.append({"kind": "fault", **tag, "observed": kv, "what": bad})
            # correspondence with the model
            if sc in FAULT_FILE_HISTORIES:
                continue
            exp = model_fault(sc, kind, k, counts)
            diff = {key: (exp[key], kv.get(key)) for key in exp if key not in ("file_null",) and str(exp[key]) != str(kv.get(key))}
            if diff:
                cx.broken.append({"correspondence": "C17 fault schedule", **tag, "model_vs_implementation": diff})
            if len(samples) < 4 and kind != "none":
                samples.append([sc, kind, k, {a: kv[a] for a in list(kv)[:8]}])
    cx.oblige("every schedule's injected fault fired exactly once and the model predicts every observation (%d schedules)" % nsched,
              not any("correspondence" in b or b.get("obligation") == "fault schedule fired" for b in cx.broken), json.dumps(cx.broken[:3]))
    cx.count(nsched, [(s,) for s in FAULT_SCENARIOS])
    cx.nontrivial.update(range(nsched))
    cx.cov["samples"] = samples
    cx.dist = {"scenarios": FAULT_SCENARIOS, "schedules": nsched, "faults_fired": nfired, "fired_by_kind": dict(fired_by_kind)}
    cx.assumptions.append("the kernel's own behaviour on a refused call (errno, no side effect) is as documented; combinations of several faults follow "
                          "from the single-fault cases only through the model's theorems, they are not injected")
    return finish(cx, "every single failure of every malloc/mmap/mremap/munmap/open/fstat/read/close/fopen/fwrite/fclose call the library objects make in "
                  "six scenarios (create internal/external, long assembly with four growths, file assembly, counting from a file, binary output), plus "
                  "all-short reads; one process per schedule (a crash is an outcome); observations checked against the property directly and against "
                  "the Lean model's prediction; distinct = distinct schedules", exhaustive=True)



# ------------------------------------------------------------------------------------------
# C18 — concurrency
# ------------------------------------------------------------------------------------------

SHARED_AUDITED = {"instr_table_index": "atomic, rebuilt with the same values by every create (C18 model)",
                  "opd_format_table_index": "atomic, rebuilt with the same values by every create (C18 model)",
                  "FIXED_NOP_LENGTH": "pointer table to the NOP byte strings, initialised statically, never stored to"}


def writable_globals():
    """T5: data/bss symbols of the library objects (compound literals = the NOP byte strings)"""
    os_symbols()      # (compiles the objects into the cache)
    d = os.path.join(alv.CACHE, "nm")
    out = set()
    for f in alv.lib_c_files():
        o = os.path.join(d, os.path.basename(f) + ".o")
        txt = subprocess.run(["nm", o], stdout=subprocess.PIPE).stdout.decode()
        for ln in txt.split("\n"):
            t = ln.split()
            if len(t) == 3 and t[1] in "DdBbCGgSs":
                out.add(t[2])
    return out


def stores_to(sym):
    """source lines of the library that assign to a global (textual: `sym[...] =` or `sym =`)"""
    hits = []
    for f in alv.lib_c_files():
        for n, ln in enumerate(open(f, errors="replace"), 1):
            if re.search(r"\b%s\b\s*(\[[^\]]*\])?\s*(=(?!=)|\+=|-=|\+\+|--)" % re.escape(sym), ln) and not re.match(r"\s*(static\s+)?(const\s+)?[\w\s\*\(\)]+\b%s\b.*=\s*\{" % re.escape(sym), ln):
                hits.append("%s:%d" % (os.path.basename(f), n))
    return hits


THR_WRAP = "-Wl,--wrap=mmap,--wrap=mremap,--wrap=munmap,--wrap=open,--wrap=fstat,--wrap=read,--wrap=close"


def check_C18(cx):
    thms = ["AL.Properties.C18." + t for t in ["slot_invariant", "stored_slot_stays", "load_after_own_create", "lookup_alone", "format_lookup_alone",
            "snapshot_is_final"]]
    info = stage_proofs(cx, "AL.Properties.C18", thms)
    if not info:
        return finish(cx, "")
    try:
        glob = writable_globals()
    except alv.BuildError as e:
        cx.oblige("T5 writable globals of the library objects", False, str(e))
        return finish(cx, "")
    unknown = sorted(g for g in glob if g not in SHARED_AUDITED and not g.startswith("__compound_literal"))
    cx.oblige("T5 the writable globals of the library objects are the audited ones (%d symbols)" % len(glob), not unknown, json.dumps(unknown))
    written = {g: stores_to(g) for g in glob if not g.startswith("__compound_literal")}
    bad_written = {g: w for g, w in written.items() if w and g not in ("instr_table_index", "opd_format_table_index")}
    idx_sites = sorted(set(w.split(":")[0] for g in ("instr_table_index", "opd_format_table_index") for w in written.get(g, [])))
    cx.oblige("T5 only the two index tables are stored to, and only in assemblyline.c (asm_build_index_tables)",
              not bad_written and idx_sites in ([], ["assemblyline.c"]), json.dumps({"other": bad_written, "index_stores_in": idx_sites}))
    nonreentrant = {"strtok", "strerror", "rand", "srand", "random", "localtime", "gmtime", "ctime", "asctime", "tmpnam", "getenv", "setlocale",
                    "strsignal", "ttyname", "readdir", "getpwnam", "getpwuid", "gethostbyname", "ecvt", "fcvt", "basename", "dirname", "lgamma"}
    used = sorted(os_symbols() & nonreentrant)
    cx.oblige("T5 the library objects call no libc function with hidden static state (strtok, strerror, rand, localtime, ...)", not used, json.dumps(used))
    if used:
        cx.violations.append({"kind": "shared-state", "functions": used,
                              "what": "the library calls a libc function that keeps process-wide state: two threads using their own instances "
                                      "share it (for strtok: the position inside the operand string being parsed)"})
    # the tables are atomic objects
    hdr = open(os.path.join(alv.REPO, "src", "instructions.h")).read() + open(os.path.join(alv.REPO, "src", "instructions.c")).read()
    atomic = all(re.search(r"_Atomic\s*\(\s*int\s*\)\s*%s|atomic_int\s+%s" % (n, n), hdr) for n in ("instr_table_index", "opd_format_table_index"))
    cx.oblige("T5 the two index tables are declared _Atomic", atomic)
    # T1 dumps the tables after a create: the model's instrIndex/opdIndex are those values (regen cross-check)
    quick = cx.tier == "quick"
    viol = 0
    runs = []
    for flavour in ("tsan", "o2"):
        impl = build_impl(cx, name="thrdrv", flavour=flavour, extra_flags=(THR_WRAP,))
        if not impl:
            return finish(cx, "")
        for n, rounds in ([(2, 3), (8, 4), (16, 3)] if quick else [(2, 10), (4, 20), (8, 20), (16, 20), (32, 10), (64, 5)]):
            env = dict(os.environ, TSAN_OPTIONS="halt_on_error=0 exitcode=66 report_signal_unsafe=0")
            p = subprocess.run([impl, str(n), str(rounds)], stdout=subprocess.PIPE, stderr=subprocess.PIPE, env=env, timeout=3000)
            out = p.stdout.decode("latin1").strip().split("\n")
            err = p.stderr.decode("latin1")
            races = err.count("WARNING: ThreadSanitizer")
            last = out[-1] if out else ""
            m = re.search(r"steps=(\d+) ok_steps=(\d+) failing_steps=(\d+) mismatches=(\d+)", last)
            runs.append([flavour, n, rounds, last])
            if p.returncode not in (0,) or races or not m or m.group(4) != "0":
                viol += 1
                i = err.find("WARNING: ThreadSanitizer")
                cx.violations.append({"kind": "threads", "build": flavour, "threads": n, "rounds": rounds, "exit": p.returncode, "tsan_reports": races,
                                      "result": out[-6:], "first_report": err[i:i + 1800] if i >= 0 else err[-600:],
                                      "what": "data race reported on library state" if races else "a thread's results differ from running alone"})
            elif m:
                cx.count(int(m.group(1)) * n, [])
    # the debug listing (asm_set_debug) together with chunk fitting in every thread
    for flavour in ("tsan", "o2"):
        impl = build_impl(cx, name="thrdrv", flavour=flavour, extra_flags=(THR_WRAP,))
        env = dict(os.environ, TSAN_OPTIONS="halt_on_error=0 exitcode=66 report_signal_unsafe=0")
        p = subprocess.run([impl, "debug", "8" if quick else "32", "3" if quick else "10"], stdout=subprocess.PIPE, stderr=subprocess.PIPE, env=env, timeout=3000)
        out = p.stdout.decode("latin1").strip().split("\n")
        err = p.stderr.decode("latin1")
        races = err.count("WARNING: ThreadSanitizer")
        m = re.search(r"debug threads=(\d+) rounds=\d+ steps=(\d+) mismatches=(\d+)", out[-1] if out else "")
        runs.append([flavour, "debug", 0, out[-1] if out else ""])
        if p.returncode != 0 or races or not m or m.group(3) != "0":
            i = err.find("WARNING: ThreadSanitizer")
            cx.violations.append({"kind": "threads", "build": flavour, "mode": "debug listing + chunk fitting", "exit": p.returncode, "tsan_reports": races,
                                  "replay_cmd": "thrdrv debug 8 3", "result": out[-3:], "first_report": err[i:i + 1800] if i >= 0 else err[-600:],
                                  "what": "data race reported on library state" if races else "a thread's results differ from running alone"})
        elif m:
            cx.count(int(m.group(2)) * int(m.group(1)), [])
    # deterministic interleavings (hook ALVERIF_INDEX_STORE): thread A makes the process's first create and is held after its k-th
    # index table store while thread B runs a complete job; every k, one process each (what happened before the first create of a
    # process cannot be re-entered later)
    impl = build_impl(cx, name="thrdrv", flavour="tsan", extra_flags=(THR_WRAP,))
    nsched = 0
    held_first = False
    for k in range(1, 26):
        env = dict(os.environ, TSAN_OPTIONS="halt_on_error=0 exitcode=66 report_signal_unsafe=0")
        p = subprocess.run([impl, "sched", str(k)], stdout=subprocess.PIPE, stderr=subprocess.PIPE, env=env, timeout=600)
        out = p.stdout.decode("latin1").strip().split("\n")
        err = p.stderr.decode("latin1")
        races = err.count("WARNING: ThreadSanitizer")
        m = re.search(r"held=(\d) stores_by_A=\d+ steps=(\d+) mismatches=(\d+)", out[-1] if out else "")
        nsched += 1
        if k == 1 and m and m.group(1) == "1":
            held_first = True
        if p.returncode != 0 or races or not m or m.group(3) != "0":
            cx.violations.append({"kind": "interleaving", "schedule": "thread A held after %d index table stores of the process's first "
                                  "asm_create_instance while thread B creates, assembles and destroys its own instances" % k,
                                  "replay_cmd": "thrdrv sched %d" % k, "exit": p.returncode, "tsan_reports": races, "result": out[-4:],
                                  "what": "a thread using only its own instances does not get the results it gets when running alone"})
            break
        cx.count(int(m.group(2)) * 2, [])
    cx.oblige("hook ALVERIF_INDEX_STORE present: thread A was held inside its create in the scheduled runs", nsched > 0 and held_first,
              "the hook did not fire (source_commits of MANIFEST.hooks)")
    # deterministic interleavings at the library's OS calls: A (creating, growing and releasing library-managed buffers) is held right
    # after its k-th mmap / mremap / munmap while B creates its own buffers, which B keeps using after A has finished
    nos, held_os = 0, 0
    for flavour in ("tsan", "o2"):
        impl = build_impl(cx, name="thrdrv", flavour=flavour, extra_flags=(THR_WRAP,))
        for k in range(1, 10):
            env = dict(os.environ, TSAN_OPTIONS="halt_on_error=0 exitcode=66 report_signal_unsafe=0")
            p = subprocess.run([impl, "os", str(k)], stdout=subprocess.PIPE, stderr=subprocess.PIPE, env=env, timeout=600)
            out = p.stdout.decode("latin1").strip().split("\n")
            err = p.stderr.decode("latin1")
            races = err.count("WARNING: ThreadSanitizer")
            m = re.search(r"held=(\d) os_calls_by_A=(\d+) steps=(\d+) mismatches=(\d+)", out[-1] if out else "")
            nos += 1
            held_os += 1 if m and m.group(1) == "1" else 0
            if p.returncode != 0 or races or not m or m.group(4) != "0":
                cx.violations.append({"kind": "interleaving", "schedule": "thread A held right after its %d-th mmap/mremap/munmap while thread B creates "
                                      "library-managed instances that it keeps using after A has finished" % k, "build": flavour,
                                      "replay_cmd": "thrdrv os %d" % k, "exit": p.returncode, "tsan_reports": races, "result": out[-4:],
                                      "stderr": err[-600:], "what": "a thread using only its own instances crashes or does not get the results it gets "
                                      "when running alone"})
                break
            cx.count(int(m.group(3)), [])
    cx.oblige("OS-call schedules: thread A was held after an OS call in at least 5 schedules per build", held_os >= 10, "held in %d of %d" % (held_os, nos))
    # two-point schedules over the file entry points' OS calls (descriptor table): A held after its ka-th call, B after its kb-th
    thrtmp = os.path.join(alv.CACHE, "thrtmp")
    os.makedirs(thrtmp, exist_ok=True)
    nos2 = both = 0
    impl = build_impl(cx, name="thrdrv", flavour="o2", extra_flags=(THR_WRAP,))
    stop = False
    for ka in range(1, 13 if quick else 20):
        for kb in range(1, 9 if quick else 12):
            p = subprocess.run([impl, "os2", str(ka), str(kb), thrtmp], stdout=subprocess.PIPE, stderr=subprocess.PIPE, timeout=600)
            out = p.stdout.decode("latin1").strip().split("\n")
            m = re.search(r"held_a=(\d) held_b=(\d) steps=(\d+) mismatches=(\d+)", out[-1] if out else "")
            nos2 += 1
            both += 1 if m and m.group(1) == "1" and m.group(2) == "1" else 0
            if p.returncode != 0 or not m or m.group(4) != "0":
                cx.violations.append({"kind": "interleaving", "schedule": "file entry points: thread A (directory path, file, missing path) held after its %d-th "
                                      "OS call, thread B (its own file) held after its %d-th, A finishes, then B" % (ka, kb),
                                      "replay_cmd": "thrdrv os2 %d %d <dir>" % (ka, kb), "exit": p.returncode, "result": out[-4:],
                                      "stderr": p.stderr.decode("latin1")[-400:],
                                      "what": "a thread using only its own instance and file does not get the results it gets when running alone"})
                stop = True
                break
            cx.count(int(m.group(3)), [])
        if stop:
            break
    cx.oblige("two-point file schedules: both threads were held in at least 20 schedules", both >= 20 or stop, "both held in %d of %d" % (both, nos2))
    cx.nontrivial.update((r[0], r[1], r[2]) for r in runs)
    cx.nontrivial.update(("sched", k) for k in range(1, nsched + 1))
    cx.cov["samples"] = runs[:4]
    cx.dist = {"runs": runs, "globals": sorted(glob)[:8], "scheduled_interleavings": nsched, "os_call_interleavings": nos, "two_point_file_schedules": nos2}
    cx.assumptions.append("the C11 memory model for _Atomic int accesses (sequentially consistent) and libc's internal locking are assumed; races on "
                          "non-atomic objects are observed by ThreadSanitizer over the schedules that occurred, not proved absent")
    return finish(cx, "2..64 threads each looping create (internal and caller buffer) / all three option setters / assemble in plain, fitting and "
                  "counting mode over 8 programs (valid, rejected, all instruction classes) / destroy on private instances, under ThreadSanitizer and "
                  "at -O2: no race report, and every thread's return values, offsets, counts and code hashes equal the single-threaded reference; "
                  "25 deterministic interleavings through the guarded hook (a thread held after k stores of the process's first create while "
                  "another runs a complete job); distinct = distinct (build, threads, rounds) runs and schedules")



# ------------------------------------------------------------------------------------------
# C19 — file entry points
# ------------------------------------------------------------------------------------------

def check_C19(cx):
    thms = ["AL.Properties.C19." + t for t in ["readLoop_all", "read_all", "file_equals_str", "file_equals_str_text", "file_counting_equals_str",
            "missing_file_fails"]] + ["AL.Properties.C17.bin_file_complete", "AL.Properties.C17.bin_file_success_iff"]
    info = stage_proofs(cx, "AL.Properties.C19", thms)
    impl = build_impl(cx)
    if not (info and impl):
        return finish(cx, "")
    g = cases.Gen(cx.seed, info["tables"])
    r = g.r
    quick = cx.tier == "quick"
    tmp = os.path.join(alv.CACHE, "filetmp_%d" % os.getpid())
    os.makedirs(tmp, exist_ok=True)
    os.makedirs(os.path.join(tmp, "adir"), exist_ok=True)
    page = os.sysconf("SC_PAGE_SIZE")
    sizes = list(range(0, 65)) + [k * page + d for k in (1, 2, 3) for d in range(-40, 41)]
    if quick:
        sizes = list(range(0, 40, 3)) + [k * page + d for k in (1, 2) for d in (-33, -2, -1, 0, 1, 2, 17)]
    unit = [b"nop\n", b"ret\n", b"add rax, rcx\n", b"mov rcx, 0x11\n", b"; c\n", b"\n", b"push r12\n", b"mulx rax, rbx, [rcx+8]\n"]
    files = []     # (name, content)
    def content_of(size, newline, bad=False):
        out = b""
        while len(out) < size:
            out += r.choice(unit)
        out = out[:size]
        # cut inside a line: make the tail a comment so that the text stays valid, unless a rejected program is wanted
        k = out.rfind(b"\n")
        tail = out[k + 1:]
        body = out[:k + 1] + (b";" * len(tail))
        if newline and body and not body.endswith(b"\n"):
            body = body[:-1] + b"\n"
        if bad and len(body) > 12:
            body = b"bogus rax\n" + body[10:]
        return body
    def content_last_byte_matters(size):
        """the file ends, without newline, in an instruction whose last character is significant"""
        for tail in (b"mov rcx, 0x1234567", b"add rax, 0x17", b"push r12", b"ret"):
            if size >= len(tail) + 1:
                head = content_of(size - len(tail), True)
                if head and not head.endswith(b"\n"):
                    head = head[:-1] + b"\n"
                return head + tail
        return content_of(size, False)
    for n, size in enumerate(sizes):
        for nl in (False, True):
            files.append(("f%d_%d" % (n, nl), content_of(size, nl)))
        files.append(("e%d" % n, content_last_byte_matters(size)))
    for n in range(6 if quick else 40):
        files.append(("bad%d" % n, content_of(r.choice([30, 200, page, page + 5]), True, bad=True)))
    for n in range(8 if quick else 60):
        files.append(("prog%d" % n, g.program(r.choice([3, 10, 40]))))
    # physical lines far longer than any block a reader could use (4096, 8192, 65536 bytes): a comment, a run of blanks inside an
    # instruction, a comment-only line in front of code — only a line's SIGNIFICANT characters are limited
    for n, L in enumerate((4090, 4096, 4100, 8192, 8200) if quick else (4000, 4090, 4095, 4096, 4097, 4100, 8191, 8192, 8193, 8200, 12288, 16500)):
        files.append(("longc%d" % n, b"nop ;" + b"a" * L + b"\nret\n"))
        files.append(("longs%d" % n, b"mov rax," + b" " * L + b"rbx\nret"))
        files.append(("longo%d" % n, b";" + b"x" * (L - 1) + b"ret\nnop\n"))
        files.append(("longm%d" % n, b"nop\n" * 7 + b"add rax, rcx ; " + b"c" * L + b"\n" + b"push r12\n" * 5))
    files = [(nm, bytes(x for x in c if x != 0)) for nm, c in files]
    hists, meta = [], []
    for fi, (nm, content) in enumerate(files):
        path = os.path.join(tmp, nm)
        open(path, "wb").write(content)
        # other names for the same file: through a symbolic link (short and long target strings), a hard link, a path with ./ and ../
        kind = fi % 5
        if kind == 1:
            lk = os.path.join(tmp, "l_" + nm)
            if os.path.lexists(lk):
                os.unlink(lk)
            os.symlink(nm, lk)                                  # relative target: a few characters long
            path = lk
        elif kind == 2:
            lk = os.path.join(tmp, "L_" + nm)
            if os.path.lexists(lk):
                os.unlink(lk)
            os.symlink(os.path.join(tmp, ".", "adir", "..", nm), lk)    # a long target string
            path = lk
        elif kind == 3:
            lk = os.path.join(tmp, "h_" + nm)
            if os.path.lexists(lk):
                os.unlink(lk)
            os.link(path, lk)
            path = lk
        elif kind == 4:
            path = os.path.join(tmp, "adir", "..", ".", nm)
        opt = r.choice(cases.OPTS)
        setopt = ["S %d mov %d" % (i, opt & 3) for i in (0, 1)] + ["S %d swap %d" % (i, (opt >> 2) & 1) for i in (0, 1)] + \
                 ["S %d nobase %d" % (i, (opt >> 3) & 1) for i in (0, 1)]
        start = r.choice([0, 0, 7, 100])
        c = r.choice([2, 5, 16, 64, 0, 1])      # sizes below 2: the counting entry points assemble plainly and report 0, whatever the fitting mode
        # chunk fitting switched on before the file is assembled: the file entry point honours it as the string entry point does
        if fi % 3 == 1:
            kfit = r.choice([2, 7, 8, 16])
            setopt = setopt + ["K 0 %d" % kfit, "K 1 %d" % kfit]
        h = ["N 0 -", "N 1 -"] + setopt + ["O 0 %d" % start, "O 1 %d" % start,
             "R 0 %s %s" % (path, cases.hexs(content)), "A 1 %s" % cases.hexs(content), "D 0 0 6000", "D 1 0 6000",
             "U 0 %d %s %s 1" % (c, path, cases.hexs(content)), "C 1 %d %s 1" % (c, cases.hexs(content)), "D 0 0 6000", "D 1 0 6000",
             "F 0", "F 1"]
        hists.append(h)
        meta.append((nm, len(content)))
    # missing file, directory, unreadable path
    for bad in (os.path.join(tmp, "does_not_exist.asm"), os.path.join(tmp, "adir"), os.path.join(tmp, "no", "such", "dir", "x.asm"), ""):
        if not bad:
            continue
        h = ["N 0 200 cc", "A 0 %s" % cases.hexs(b"nop\nret"), "R 0 %s missing" % bad, "G 0", "U 0 8 %s missing 1" % bad, "G 0", "D 0 0 40",
             "A 0 %s" % cases.hexs(b"ret"), "F 0"]
        hists.append(h)
        meta.append(("missing", bad))
    # binary output at all offsets of a short program, and an unwritable path
    prog = b"mov rax, 0x1122334455667788\nvaddpd ymm1, ymm2, [rax+r9*8+16]\npush r12\nret\n"
    outp = os.path.join(tmp, "out.bin")
    for off in list(range(0, 30)) + [-1, -5]:
        h = ["N 0 300 cc", "A 0 %s" % cases.hexs(prog), "O 0 %d" % off, "W 0 %s %s" % (outp, "stale" if off % 2 else "ok"),
             "D 0 0 %d" % max(off, 0), "F 0"]
        hists.append(h)
        meta.append(("bin", off))
    # ... and with the code ending inside the last bytes of the buffer (the 20-byte reserve in front of the end is ordinary code space
    # once an instruction has been stored there): caller buffer of 300 bytes, library-managed buffer of 6000
    for off in list(range(275, 301)):
        hists.append(["N 0 300 cc", "A 0 %s" % cases.hexs(prog), "O 0 %d" % off, "W 0 %s %s" % (outp, "stale" if off % 2 else "ok"),
                      "D 0 0 %d" % off, "F 0"])
        meta.append(("bin", off))
    for off in list(range(5975, 6001)):
        hists.append(["N 0 -", "A 0 %s" % cases.hexs(prog), "O 0 %d" % off, "W 0 %s ok" % outp, "D 0 0 %d" % off, "F 0"])
        meta.append(("bin", off))
    # ... whatever the history: after a call that was refused (the offset and the code in front of it stay defined), and on an
    # instance that has assembled nothing and was only positioned by asm_set_offset
    for off in (5, 17, 29):
        for variant in range(3):
            pre = [["A 0 %s" % cases.hexs(prog), "A 0 %s" % cases.hexs(b"bogus rax")],
                   ["A 0 %s" % cases.hexs(prog), "C 0 8 %s 1" % cases.hexs(b"nop\nmov rax, [rbx")],
                   ["G 0", "G 0"]][variant]
            hists.append(["N 0 300 cc"] + pre[:1] + ["O 0 %d" % off] + pre[1:] + ["W 0 %s ok" % outp, "D 0 0 %d" % off, "F 0"])
            meta.append(("binh", off))
    hists.append(["N 0 300 cc", "A 0 %s" % cases.hexs(prog), "W 0 %s bad" % os.path.join(tmp, "no", "such", "dir", "o.bin"), "F 0"])
    meta.append(("bin", "unwritable"))
    # a long history of failing file calls in front of a valid one, in a process with a small descriptor budget: the file entry points
    # still equal the string entry points afterwards (a call that fails must not keep the file open)
    good = os.path.join(tmp, "budget.asm")
    gtext = b"mov rcx, 0x11\nadd rax, rcx\npush r12\nret\n"
    open(good, "wb").write(gtext)
    nfail = 70 if quick else 400
    h = ["H 0 40", "N 0 300 cc", "N 1 300 cc"]
    fails = [os.path.join(tmp, "adir"), os.path.join(tmp, "does_not_exist.asm"), os.path.join(tmp, "adir", "..", "adir")]
    for i in range(nfail):
        b = fails[i % 3]
        h.append(("R 0 %s missing" % b) if i % 2 == 0 else ("U 0 8 %s missing 1" % b))
    h += ["R 0 %s %s" % (good, cases.hexs(gtext)), "A 1 %s" % cases.hexs(gtext), "D 0 0 40", "D 1 0 40",
          "U 0 4 %s %s 1" % (good, cases.hexs(gtext)), "C 1 4 %s 1" % cases.hexs(gtext), "F 0", "F 1", "H 0 0"]
    hists.append(h)
    meta.append(("budget", nfail))
    ops, out = tie_api_mod_lf(cx, impl, hists, "C19 file entry points vs model (readFile / asmAssembleFile / createBinFile)")
    pos = 0
    nv = 0
    for m, h in zip(meta, hists):
        o = out[pos:pos + len(h)]
        pos += len(h)
        if len(o) < len(h):
            break
        bad = None
        if m[0] == "missing":
            if o[2].split()[0] != "1" or o[4].split()[0] != "1" or o[3] != o[1].split()[1] or o[5] != o[3] or o[7].split()[0] != "0":
                bad = "a missing or unreadable file does not yield EXIT_FAILURE with the instance unchanged and usable"
        elif m[0] == "budget":
            k = 3 + m[1]
            if o[k] != o[k + 1] or o[k + 2] != o[k + 3] or o[k + 4] != o[k + 5]:
                bad = "after %d failing file calls the file entry point and the string entry point on the file's contents differ" % m[1]
        elif m[0] == "binh":
            rc, filehex = o[4].split()
            if rc != "0" or filehex != o[5]:
                bad = "after this history the created file does not hold exactly the bytes [0, asm_get_offset)"
        elif m[0] == "bin":
            rc, filehex = o[3].split() if m[1] != "unwritable" else o[2].split()
            if m[1] == "unwritable":
                if rc != "1":
                    bad = "asm_create_bin_file reports success for a path it cannot create"
            else:
                want = o[4] if m[1] > 0 else "-"
                if rc != "0" or filehex != want:
                    bad = "the created file does not hold exactly the bytes [0, asm_get_offset)"
        else:
            if o[10] != o[11] or o[12] != o[13] or o[14] != o[15] or o[16] != o[17]:
                bad = "the file entry point and the string entry point on the file's contents differ"
        if bad and nv < 6:
            nv += 1
            cx.violations.append({"kind": "file", "case": list(m), "history": [x[:200] for x in h], "outputs": [x[:200] for x in o], "what": bad})
    import shutil
    shutil.rmtree(tmp, ignore_errors=True)
    cx.nontrivial.update(meta)
    cx.cov["samples"] = [[x[:120] for x in hists[5]], list(meta[-3])]
    cx.dist = {"file_sizes": "%d sizes (0..64 and around 1,2,3 pages of %d bytes), with and without final newline" % (len(sizes), page),
               "rejected_programs": sum(1 for m in meta if str(m[0]).startswith("bad")), "generated_programs": sum(1 for m in meta if str(m[0]).startswith("prog")),
               "missing_paths": 3, "bin_offsets": 32}
    cx.assumptions.append("the file system returns what was written (the harness writes each file itself just before the call)")
    return finish(cx, "files of every size 0..64 and within 40 bytes of 1, 2 and 3 pages, ending with and without a newline, valid, rejected and generated "
                  "programs: asm_assemble_file / asm_assemble_file_counting_chunks on one instance vs asm_assemble_str / "
                  "asm_assemble_string_counting_chunks on a twin with the same options and offset (return values, offsets, counts, buffer bytes); "
                  "missing file, directory, missing directory; asm_create_bin_file at every offset 0..29 and negative offsets of a program, file "
                  "contents read back; every history also run on the Lean model; distinct = distinct cases")



# ------------------------------------------------------------------------------------------
# C20 — asmline
# ------------------------------------------------------------------------------------------

CLI_MODES = [[], ["n"], ["t"], ["s"], ["nasm-mov-imm"], ["strict-mov-imm"], ["smart-mov-imm"], ["nasm-sib"], ["strict-sib"],
             ["nasm-sib-index-base-swap"], ["strict-sib-index-base-swap"], ["nasm-sib-no-base"], ["strict-sib-no-base"],
             ["t", "nasm-mov-imm"], ["n", "strict-sib-no-base"], ["strict-sib", "nasm-sib-index-base-swap"], ["s", "t"], ["t", "s"], ["n", "t", "n"],
             ["strict-sib-no-base", "nasm-sib"], ["nasm-mov-imm", "strict-mov-imm"], ["t", "nasm-sib", "strict-sib-index-base-swap"],
             ["strict-mov-imm", "n"], ["smart-mov-imm", "strict-sib", "nasm-sib-no-base"]]


# output names of 95 .. 200 characters (no dot allowed in a -o name): NAME.bin has to be exactly that name
LONG_O = {"olong95": "n" * 95, "olong96": "n" * 96, "olong100": "m" * 100, "olong200": "k" * 200}


def cli_args(tokens, outdir):
    """argv for the flag tokens of the model's syntax"""
    av = []
    for t in tokens:
        if t in ("n", "t", "s", "p", "r"):
            av.append("-" + t)
        elif t.startswith("c="):
            av += ["-c", t[2:]]
        elif t.startswith("b="):
            av += ["-b", t[2:]]
        elif t == "P":
            av += ["-P", os.path.join(outdir, "outP.bin")]
        elif t == "Pbad":
            av += ["-P", os.path.join(outdir, "no", "such", "dir", "x.bin")]
        elif t == "o":
            av += ["-o", "outo"]          # (relative: the name may not contain a dot, the process runs in outdir)
        elif t == "o.":
            av += ["-o", "out.o"]
        elif t in LONG_O:
            av += ["-o", LONG_O[t]]
        else:
            av.append("--" + t)
    return av


def hex_tokens(text):
    """the bytes asmline -p printed: lines that consist of two-digit hex tokens only (the `-b` report line
    "10 instructions break a chunk boundary ..." starts with a number that would read as a byte)"""
    out = []
    for ln in text.split("\n"):
        toks = [t for t in ln.split() if t != "|"]      # chunk rows end in a bar
        if toks and all(re.fullmatch(r"[0-9a-f]{2}", t) for t in toks):
            out += toks
    return "".join(out)


C20_THEOREMS = ["usage_error_exits", "exit_zero_iff", "option_calls", "option_calls_spec", "parseFlags_opt", "applyLong_opt", "getlines_join", "file_mode_is_library",
                 "stdin_equals_file", "stdinLoop_plain", "stdinLoop_counting",
                 "listing_reads_back", "chunk_dump_reads_back", "p_with_fitting_prints_the_code", "p_plain_file_prints_the_code"]


def check_C20(cx):
    thms = ["AL.Properties.C20." + t for t in C20_THEOREMS] + ["AL.Lemmas.DebugText.parse_printInstr", "AL.Lemmas.DebugText.parse_printChunks",
                                                                  "AL.Lemmas.DebugText.parse_listing", "AL.Lemmas.DebugText.listingGo_codes"]
    info = stage_proofs(cx, "AL.Properties.C20", thms)
    if not info:
        return finish(cx, "")
    try:
        exe = alv.build_tool(os.path.join("tools", "asmline.c"), "asan")
    except alv.BuildError as e:
        cx.oblige("build tools/asmline.c", False, str(e))
        return finish(cx, "")
    g = cases.Gen(cx.seed, info["tables"])
    r = g.r
    quick = cx.tier == "quick"
    tmp = os.path.join(alv.CACHE, "clitmp_%d" % os.getpid())
    os.makedirs(tmp, exist_ok=True)
    probe = b"mov rax, 0x1\nmov rcx, 0x0000000000000001\nlea r15, [rax+rsp]\nlea r14, [2*rax]\nvaddpd ymm1, ymm2, [rax+r9*8+16]\nret\n"
    progs = [probe, b"mov rax, 0x1122334455667788\nret", b"nop\n\n; comment\nlabel:\nadd rax, rcx\npush r12\nmov rax, 0x7fffffff\nret\n",
             b"xor eax, eax\nbogus rax\nret\n",
             # empty and blank lines directly behind instructions that cross a -b / -c boundary, also as the last lines
             b"mov rax, 0x1122334455667788\n\nret\n", b"nop\nmov rax, 0x1122334455667788\n\n\n  \n\nmov rcx, 0x1122334455667788\n\n\n",
             # CR-only and CRLF line ends (the library ends a line at either character; getline cuts at LF only)
             b"mov rax, 0x11\radd rax, 0x22\rret\n", b"nop\r\nmov rcx, 0x1122334455667788\r\nret\r\n",
             # raw lines longer than any fixed line buffer (blanks do not count towards the library's 100-character limit)
             b"mov rax," + b" " * 100 + b"rbx\nmov eax," + b" " * 88 + b"0x12345678\nadd rax, rcx" + b" " * 300 + b"; c\n" + b"\t" * 250 + b"ret\n",
             b"", b"ret", b"mov rdx, 0x1122334455667788\n" * 700]
    for _ in range(3 if quick else 30):
        progs.append(g.program(r.choice([4, 12, 40])))
    progs = [bytes(x for x in p if x != 0) for p in progs]
    outs = [[], ["p"], ["P"], ["o"], ["b=4"], ["b=16"], ["c=8"], ["p", "c=8"], ["p", "b=5"], ["P", "c=16"], ["p", "P"], ["Pbad"], ["c=1"], ["b=0"], ["o."],
            ["olong95"], ["olong96"], ["olong100"], ["olong200", "p"]]
    cases_ = []
    for pi, prog in enumerate(progs):
        modes = CLI_MODES if pi == 0 else r.sample(CLI_MODES, 4 if quick else 10)
        for mode in modes:
            for out in (outs if pi < 9 or len(prog) > 6000 else r.sample(outs, 5)):
                for stdin in (False, True):
                    cases_.append((pi, mode + out if r.random() < 0.5 else out + mode, stdin))
    # -r on side-effect free programs
    r_expected = {}
    for v in [0, 5, 0x7fffffff, 0x80000000, 0xffffffff, 0x100000000, 0x1122334455667788, 0xffffffffffffffff]:
        for mode in (["t"], ["n"], ["s"], []):
            progs.append(b"mov rax, 0x%x\nret\n" % v)
            r_expected[len(progs) - 1] = v
            cases_.append((len(progs) - 1, mode + ["r"], r.random() < 0.5))
    # -r hands the code six pointers (rdi, rsi, rdx, rcx, r8, r9) to DISTINCT zeroed arrays of ten qwords: what is stored through one is
    # read back through the same one only, the last qword of each is usable
    for text, v in [(b"mov rax, -1\nmov [rdi+16], rax\nmov rax, [rsi]\nret\n", 0),
                    (b"mov qword [rdi], 7\nmov rax, [rdi]\nadd rax, [rdi+8]\nret\n", 7),
                    (b"mov qword [r9+72], 5\nmov rax, [r8]\nadd rax, [r9+72]\nadd rax, [rcx+8]\nadd rax, [rdx+72]\nret\n", 5),
                    (b"mov qword [rsi+72], 3\nmov qword [rdx], 4\nmov rax, [rsi+72]\nadd rax, [rdx]\nadd rax, [rcx]\nret\n", 7)]:
        for stdin_ in (False, True):
            progs.append(text)
            r_expected[len(progs) - 1] = v
            cases_.append((len(progs) - 1, ["r"], stdin_))
    ops, obs = [], []
    nviol = 0
    for pi, toks, stdin in cases_:
        prog = progs[pi]
        path = os.path.join(tmp, "in.asm")
        open(path, "wb").write(prog)
        for f in ["outP.bin", "outo.bin", "out.o.bin"] + [f_ for f_ in os.listdir(tmp) if f_[:1] in "nmk" and len(f_) > 90]:
            try:
                os.unlink(os.path.join(tmp, f))
            except OSError:
                pass
        # every other invocation finds its output file already there, longer than anything it will write (an earlier run's output):
        # the file must hold exactly the library's bytes afterwards
        if (pi + len(toks)) % 2 == 0:
            for f in (["outP.bin"] if "P" in toks else []) + (["outo.bin"] if "o" in toks else []):
                open(os.path.join(tmp, f), "wb").write(b"\xee" * 9000)
        av = cli_args(toks, tmp)
        p = subprocess.run([exe] + av + ([] if stdin else [path]), input=prog if stdin else None, stdout=subprocess.PIPE, stderr=subprocess.PIPE,
                           timeout=300, cwd=tmp, env=dict(os.environ, ASAN_OPTIONS="detect_leaks=0"))
        so = p.stdout.decode("latin1")
        filebytes = None
        for f in ["outP.bin", "outo.bin"] + [LONG_O[t] + ".bin" for t in toks if t in LONG_O]:
            fp = os.path.join(tmp, f)
            if os.path.exists(fp):
                filebytes = open(fp, "rb").read().hex() or "-"
        if filebytes == "ee" * 9000:
            filebytes = None        # (the run did not touch the file that was there before)
        model_toks = [("P" if t == "Pbad" else "o" if t in LONG_O else t) for t in toks]
        ops.append("CL %s %d %s %d" % (",".join(model_toks) or "-", stdin, cases.hexs(prog), 0 if "Pbad" in toks else 1))
        se = p.stderr.decode("latin1")
        k = se.find("ERROR: AddressSanitizer")
        obs.append((p.returncode, so, filebytes, se[k:k + 300] if k >= 0 else se[-300:]))
    rc, mout, merr = alv.run_driver(alv.driver_path(), ops)
    cx.oblige("model ran %d asmline invocations" % len(ops), rc == 0 and len(mout) == len(ops), merr[-300:])
    if rc != 0 or len(mout) != len(ops):
        return finish(cx, "")
    # what asmline writes to stdout, character by character, against the model of the printers (AL.Impl.cliStdout: the -p listing per
    # instruction with a row break in front of the eighth byte, the chunked dump with `|`, the -b report line); -r runs and usage errors
    # (usage text) are left out
    rc_o, mstd, merr_o = alv.run_driver(alv.driver_path(), ["CO " + op.split(" ", 1)[1].rsplit(" ", 1)[0] for op in ops])
    cx.oblige("model printed the stdout of %d asmline invocations" % len(ops), rc_o == 0 and len(mstd) == len(ops), merr_o[-300:])
    if rc_o != 0 or len(mstd) != len(ops):
        return finish(cx, "")
    mism = []
    seen_by_key = {}
    nstdout = 0
    for (pi, toks, stdin), op, (xrc, so, fb, err), mo, ms in zip(cases_, ops, obs, mout, mstd):
        mexit, moff, mcode, mcount = mo.split()
        tag = {"program": progs[pi][:200].decode("latin1"), "flags": toks, "stdin": stdin}
        usage = mexit == "1" and moff == "0" and any(t in ("c=1", "b=0", "o.") for t in toks)
        if not usage and "r" not in toks and 0 <= xrc < 128 and "AddressSanitizer" not in err:
            nstdout += 1
            want_so = "" if ms == "-" else bytes.fromhex(ms).decode("latin1")
            if so != want_so:
                k_ = next((i for i in range(min(len(so), len(want_so))) if so[i] != want_so[i]), min(len(so), len(want_so)))
                mism.append({**tag, "what": "stdout", "first_difference_at": k_, "asmline": so[max(0, k_ - 40):k_ + 60], "model": want_so[max(0, k_ - 40):k_ + 60]})
        # correspondence with the model: exit status, binary file, count
        if str(xrc) != mexit:
            mism.append({**tag, "what": "exit status", "asmline": xrc, "model": mexit, "stderr": err})
        if mexit == "0" and ("P" in toks or "o" in toks or any(t in LONG_O for t in toks)) and fb != mcode:
            mism.append({**tag, "what": "binary output file", "asmline": fb, "model": mcode})
        if mexit == "0" and mcount != "-":
            m = re.search(r"^(-?\d+)( instructions break a chunk boundary of (\d+) bytes)?$", so, re.M)
            if not m or m.group(1) != mcount:
                mism.append({**tag, "what": "count printed by -b", "asmline": so[-80:], "model": mcount})
        # the property, directly
        bad = None
        if xrc < 0 or xrc >= 128 or "AddressSanitizer" in err or "runtime error:" in err:
            bad = "asmline crashed (signal / sanitizer report) instead of reporting through its outputs and exit status"
        if xrc == 0 and "p" in toks and mexit == "0":
            printed = hex_tokens(so)
            want = "" if mcode == "-" else mcode
            cumulative = stdin and any(t.startswith("c=") for t in toks)
            if printed != want:
                bad = "-p does not print the bytes the library produced" + (" (stdin with -c: the buffer is printed again after every line)" if cumulative else "")
        if xrc == 0 and "r" in toks:
            m = re.search(r"the value is 0x([0-9a-f]+)", so)
            v = r_expected[pi]
            if not m or int(m.group(1), 16) != v:
                bad = "-r does not print the value the code returns in rax"
        if "Pbad" in toks and xrc == 0 and not usage:
            bad = "exit status 0 although the requested output file could not be created"
        wants_file = "P" in toks or "o" in toks or any(t in LONG_O for t in toks)
        if wants_file and xrc == 0 and not usage and fb is None:
            bad = "exit status 0 although the requested binary file (NAME.bin for -o NAME) does not exist afterwards"
        if wants_file and xrc == 0 and not usage and fb is not None and mexit == "0" and fb != mcode:
            bad = "the binary output file does not hold exactly the bytes the library produced (its length included)"
        key = (pi, tuple(sorted(toks)))
        cnt = None
        if xrc == 0 and any(t.startswith("b=") for t in toks):
            mc = re.search(r"^(-?\d+)( instructions break a chunk boundary of (\d+) bytes)?$", so, re.M)
            cnt = mc.group(1) if mc else "?"
        if not usage:
            prev = seen_by_key.get((pi, tuple(toks)))
            if prev is not None and prev[0] != stdin and (prev[1], prev[2]) != (xrc, fb) and "p" not in toks:
                bad = "stdin and FILE give different results"
            if prev is not None and prev[0] != stdin and prev[3] != cnt:
                bad = "-b prints a different count for the same program from stdin (%s) and from FILE (%s)" % ((cnt, prev[3]) if stdin else (prev[3], cnt))
            seen_by_key[(pi, tuple(toks))] = (stdin, xrc, fb, cnt)
        if bad and nviol < 6:
            nviol += 1
            cx.violations.append({"kind": "cli", **tag, "exit": xrc, "stdout": so[-600:], "file": fb, "library_bytes": mcode, "what": bad})
    for m in mism[:10]:
        cx.broken.append({"correspondence": "C20 asmline vs model", **m})
    cx.oblige("asmline agrees with the model (exit status, binary files, counts, and stdout character by character on %d of them) on %d invocations" % (nstdout, len(ops)), not mism, json.dumps(mism[:3])[:1500])
    import shutil
    shutil.rmtree(tmp, ignore_errors=True)
    cx.count(len(ops), [])
    cx.nontrivial.update((pi, tuple(t), s) for pi, t, s in cases_)
    cx.cov["samples"] = [ops[0][:200], ops[len(ops) // 2][:200], ops[-1][:200]]
    cx.dist = {"programs": len(progs), "mode_flag_sequences": len(CLI_MODES), "output_flag_sets": len(outs), "invocations": len(ops),
               "stdin_invocations": sum(1 for c in cases_ if c[2])}
    cx.assumptions.append("getopt_long parses the command line as documented; the kernel delivers stdin and files unchanged")
    return finish(cx, "programs (option-discriminating probe, valid, rejected, empty, long with growth, generated) x 24 mode-flag sequences (every long "
                  "flag, -n/-t/-s in both orders, mixtures) x 15 output-flag sets (-p, -P, -o, -b N, -c N, combinations, unwritable path, usage "
                  "errors) x {stdin, FILE}, and -r on mov rax, v; ret for boundary v in every mode: exit status, binary file, printed count vs the "
                  "Lean model of asmline over the library model; -p hex and -r value checked directly; distinct = distinct invocations")



def history_around(ops, idx):
    """the ops of the history that contains op number idx (a history starts at its first N op
    after an F op or at the beginning)"""
    if not ops:
        return []
    idx = max(0, min(idx, len(ops) - 1))
    start = idx
    while start > 0 and not (ops[start].startswith("N ") and (start == 0 or ops[start - 1].startswith("F "))):
        start -= 1
    end = idx
    while end + 1 < len(ops) and not ops[end].startswith("F "):
        end += 1
    return ops[start:end + 1]


CHECKS = {"C12": check_C12, "C07": check_C07, "C06": check_C06, "C13": check_C13, "C14": check_C14, "C08": check_C08, "C15": check_C15, "C16": check_C16, "C10": check_C10, "C09": check_C09, "C11": check_C11, "C01": check_enc, "C02": check_enc, "C03": check_enc, "C04": check_enc, "C05": check_enc, "C17": check_C17, "C18": check_C18, "C19": check_C19, "C20": check_C20}


def run_check(prop, tier, seed):
    if prop not in CHECKS:
        print(f"no check registered for {prop}")
        return 2
    cx = Ctx(prop, tier, seed)
    try:
        return CHECKS[prop](cx)
    except Exception:
        # the check itself failed (an observation it could not interpret): the property is not shown to hold on this tree
        import traceback
        tb = traceback.format_exc()
        sys.stderr.write(tb)
        path = alv.write_replay(prop, seed, "obligation", {"broken": [{"obligation": "the check runs to its verdict", "internal_error": tb[-3000:]}],
                                                             "violations": cx.violations[:5]})
        print(f"VIOLATION property={prop} replay={path} no-failing-input-found")
        return 1


def replay(path):
    d = json.load(open(path))
    print(json.dumps(d, indent=1)[:4000])
    prop = d["property"]
    # re-run the property's quick check; a replay is reproduced when it reports again
    return run_check(prop, "quick", d.get("seed", 1))
