/-
  AL.Lemmas.Alu — the eight "group 1" operations (add, or, adc, sbb, and, sub, xor, cmp) on a 64-bit register with an immediate,
  at the record level, for a SYMBOLIC immediate: the second half of the per-line pipeline (encode_imm with its cascade of range
  tests — encode_imm_operation for the accumulator form, encode_imm_non_data_transfer for `83 ib` vs `81 id` — encode_operands,
  assemble_asm) on the record the lexer produces for `<op> <r64>, <number>`, for abstract table rows of the shape that occurs
  (the `80 /n` row followed by the accumulator row), each of the 16 registers, EVERY value that sign-extends from 32 bits and
  every option byte.  `aluKeys_classified` (kernel evaluation on the regenerated table) shows that every OPERATION row of the table
  with (register-or-memory, immediate) operands has that shape, with the accumulator opcode 8n+4 belonging to the same /n.
-/
import AL.Impl.Line
import AL.Lemmas.ImmField
import AL.Lemmas.MovImm
import AL.Lemmas.Branch
namespace AL.Lemmas.Alu
open AL AL.Impl AL.Gen AL.Lemmas AL.Spec.X86 AL.Lemmas.MovImm AL.Lemmas.Branch

def aluRec (key : Int) (mn name : Str) (g : Nat) (v : Nat) (b : Bool) : Instr :=
  Instr.mk key mn (Operand.mk name g [] 32 114) (Operand.mk [] 32 [] 32 105) (Operand.mk [] 32 [] 32 0) (Operand.mk [] 0 [] 0 0) kw0 b true false v false false false false false false 0 0 0 192 0 hex0 0 0

def isI (r : Row) (n : Nat) : Prop :=
  r.type = 64 ∧ r.enc = 504 ∧ r.size = 3 ∧ r.opcode.take 3 = [262144, 128, 131072] ∧ r.opOffI = 1 ∧ r.singleReg = n ∧
  r.id ≠ 109 ∧ r.id ≠ 191 ∧ r.id ≠ 77
def isA (r : Row) (o : Nat) : Prop :=
  r.type = 64 ∧ r.enc = 505 ∧ r.size = 2 ∧ r.opcode.take 2 = [262144, o] ∧ r.opOffI = 1 ∧ r.id ≠ 109 ∧ r.id ≠ 191 ∧ r.id ≠ 77

/-- ModRM byte of `/n` on register m (mod = 11) as the encoder builds it -/
def modrm (n m : Nat) : Nat := 192 ||| (n &&& 7) <<< 3 ||| m % 8

theorem bit7 (v : Nat) : (v &&& 128 != 0) = decide (128 ≤ v % 256) := by
  have := and_two_pow_ne_zero v 7
  simp only [show (2 : Nat) ^ 7 = 128 by decide, show (2 : Nat) ^ (7 + 1) = 256 by decide] at this
  cases h : (v &&& 128 != 0)
  · symm; rw [decide_eq_false_iff_not]; intro hc; have := this.2 hc; rw [h] at this; exact Bool.noConfusion this
  · symm; rw [decide_eq_true_eq]; exact this.1 h
theorem bit7' (v : Nat) : (v &&& 128 = 0) = ¬ (128 ≤ v % 256) := by
  have := bit7 v
  by_cases h : 128 ≤ v % 256
  · simp [h] at this ⊢; exact this
  · simp [h] at this ⊢; exact this

theorem low8 (v : Nat) : v &&& 255 = v % 256 := by
  have := Nat.and_two_pow_sub_one_eq_mod v 8
  simpa using this

macro "alu_resolve" : tactic => `(tactic|
  simp [lineBytes, resolveLine, resolveBranch, selectShort, resolveRest, checkRegistersFail, branch32, encodeIfRegs, pushAdjust,
    encodeOffset, encodeImm, immSelectAcc, immByClass, immTruncate, encodeImmNonDataTransfer, encodeImmOperation,
    encodeOperands, xchgAdjust, movzxAdjust, dispatchEnc, encodeSpecialOpd, setRex, getRexPrefix, opd0WidthMode,
    encodeMem, getReg, noBaseAdjust, noBaseFires, getRegFinish, getOpcodeOffset, noRegister, Instr.setOpd,
    Instr.opd, aluRec, kw0, hex0, typeIs, nameIs, inR, band, Keywords.any, low32, low8, bit7, bit7',
    c_CONTROL_FLOW, c_S, c_NO_BYTE, c_reg_error, c_reg_none, c_NEG32BIT, c_NEG64BIT, c_push, c_SHIFT, c_OPERATION, c_MODE_MASK,
    c_mmx64, c_PAD_ALWAYS, c_DATA_TRANSFER, c_VALUE_MASK, c_NEG32BIT_CHECK, c_reg64, c_MAX_UNSIGNED_32BIT, c_noext8, c_I, c_BIT_8,
    c_reg32, c_ext32, c_ext64, c_reg16, c_xchg, c_movzx, c_MR, c_RM, c_RVM, c_RMV, c_M, c_O, c_spl, c_REG_RB, c_rex_, c_rex_w, c_rex_b, c_REX_W_RXB,
    c_MODE_CLEAR, c_REG_MASK, c_MOD24, c_MOD16, c_MOD8, c_MAX_BYTE_IDENTIFIER, c_MAX_SIGNED_8BIT, c_NEG8BIT, c_NEG8BIT_CHECK,
    c_MAX_UNSIGNED_8BIT, c_X32BIT_CHECK, c_NEG80_32BIT, c_al, c_NEG80BIT, *])

theorem and7_lt (n : Nat) : n &&& 7 < 8 := by
  have := @Nat.and_le_right n 7
  omega
theorem modrm_lt' : ∀ a < 8, ∀ k < 8, 192 ||| a <<< 3 ||| k < 256 := by decide
theorem modrm_lt (n k : Nat) (hk : k < 8) : 192 ||| (n &&& 7) <<< 3 ||| k < 256 := modrm_lt' _ (and7_lt n) k hk
theorem modrm_lt0 (n : Nat) : 192 ||| (n &&& 7) <<< 3 < 256 := by simpa using modrm_lt n 0 (by decide)

theorem modrm_mod (n k : Nat) (hk : k < 8) : (192 ||| (n &&& 7) <<< 3 ||| k) % 256 = 192 ||| (n &&& 7) <<< 3 ||| k := Nat.mod_eq_of_lt (modrm_lt n k hk)
theorem modrm_mod0 (n : Nat) : (192 ||| (n &&& 7) <<< 3) % 256 = 192 ||| (n &&& 7) <<< 3 := Nat.mod_eq_of_lt (modrm_lt0 n)

macro "alu_emit" : tactic => `(tactic|
  simp [assembleAsm, assembleInstr, assembleSlots, emitSlot, assembleMemDisp, c_BIT_MASK, c_BIT_16, c_GET_EN, c_REX, c_REG, c_VEX,
    c_ib, c_rd, c_NO_BYTE, modrm, modrm_mod, modrm_mod0, modrm_lt, modrm_lt0, *])

/-- an unreduced immediate behind an `83 /n` opcode (opcode offset 3) is emitted as one byte, no padding -/
theorem assembleImm_imm8 (s : Instr) (hi : s.imm = true) (hb : s.kw.isByte = false) (hr : s.reducedImm = false)
    (ho : s.opOffset = 3) (he : (rowAt s.key).enc = 504) (ht : (rowAt s.key).type = 64) (hc : s.cons ≤ 255) :
    assembleImm s = [s.cons] := by
  have hz : checkZero s s.cons (rowAt s.key).type = false := by simp [checkZero, ht, c_DATA_TRANSFER]
  have hp : immPad s 1 = 0 := by
    unfold immPad
    simp [hr, hb, ho, he, ht, c_CONTROL_FLOW, c_I, c_PAD_ALWAYS]
  unfold assembleImm
  simp only [hi, Bool.not_true, Bool.false_eq_true, if_false]
  rw [immCore_eq s hb, hz]
  by_cases h0 : s.cons = 0
  · simp [h0, assembleConst, assembleConstGo, hp]
  · have h1 : assembleConst s.cons = [s.cons] := by
      unfold assembleConst
      unfold assembleConstGo
      simp only [h0, if_false]
      have : s.cons / 256 = 0 := by omega
      rw [this, Nat.mod_eq_of_lt (by omega)]
      unfold assembleConstGo
      simp
    have h0' : (s.cons == 0) = false := by simp [h0]
    simp [h1, h0', hp]

macro "aside" : tactic => `(tactic| first
  | rfl | decide | assumption | omega | (exact modrm_lt0 _) | (apply modrm_lt; decide)
  | (simp [checkZero, c_DATA_TRANSFER, *]; done)
  | (simp [is16, opd0WidthMode, c_MODE_MASK, c_reg16, c_ext16]; done)
  | (simp [zeroPads, opd0WidthMode, c_CONTROL_FLOW, c_MODE_MASK, c_noext8, c_I, c_PAD_ALWAYS, *]; done)
  | (simp [c_MAX_UNSIGNED_8BIT, c_MAX_UNSIGNED_32BIT, low32]; omega)
  | (simp [*]; done)
  | (simp; omega) | (simp; done))

set_option maxHeartbeats 4000000 in
/-- v ≤ 0x7f: `REX.W 83 /n ib` -/
theorem leafA (key : Int) (mn : Str) (n o : Nat) (r r1 : Row) (hr : rowAt key = r) (hr1 : rowAt (key + 1) = r1)
    (hI : isI r n) (hA : isA r1 o)
    (m : Nat) (name : Str) (g : Nat) (hp : (m, name, g) ∈ regs64) (v : Nat) (b : Bool) (opt : Nat) (hv : v ≤ 0x7f) :
    lineBytes opt (aluRec key mn name g v b) = some [0x48 + m / 8, 0x83, modrm n m, v] := by
  obtain ⟨t0, e0, s0, oc0, oi0, sr0, hid, hx, hz⟩ := hI
  obtain ⟨t1, e1, s1, oc1, oi1, hid1, hx1, hz1⟩ := hA
  have h3 : v ≤ 127 := hv
  have h4 : ¬ 127 < v := by omega
  have h5 : v ≤ 224 := by omega
  have h6 : ¬ 18446744073709551361 ≤ v := by omega
  have h7 : ¬ 18446744069414584321 ≤ v := by omega
  have h8 : ¬ 4294967168 ≤ v := by omega
  have h9 : ¬ 268435456 ≤ v := by omega
  have h10 : ¬ 128 ≤ v := by omega
  simp only [regs64, List.mem_cons, Prod.mk.injEq, List.not_mem_nil, or_false] at hp
  rcases hp with ⟨rfl, rfl, rfl⟩ | ⟨rfl, rfl, rfl⟩ | ⟨rfl, rfl, rfl⟩ | ⟨rfl, rfl, rfl⟩ | ⟨rfl, rfl, rfl⟩ | ⟨rfl, rfl, rfl⟩ | ⟨rfl, rfl, rfl⟩ | ⟨rfl, rfl, rfl⟩ | ⟨rfl, rfl, rfl⟩ | ⟨rfl, rfl, rfl⟩ | ⟨rfl, rfl, rfl⟩ | ⟨rfl, rfl, rfl⟩ | ⟨rfl, rfl, rfl⟩ | ⟨rfl, rfl, rfl⟩ | ⟨rfl, rfl, rfl⟩ | ⟨rfl, rfl, rfl⟩
  all_goals (alu_resolve; alu_emit; rw [assembleImm_imm8] <;> aside)


set_option maxHeartbeats 4000000 in
/-- 2^64 − 0x80 ≤ v: `REX.W 83 /n ib` with the low byte -/
theorem leafC (key : Int) (mn : Str) (n o : Nat) (r r1 : Row) (hr : rowAt key = r) (hr1 : rowAt (key + 1) = r1)
    (hI : isI r n) (hA : isA r1 o)
    (m : Nat) (name : Str) (g : Nat) (hp : (m, name, g) ∈ regs64) (v : Nat) (b : Bool) (opt : Nat) (hv : 0xffffffffffffff80 ≤ v) (h64 : v < 2 ^ 64 - 1) :
    lineBytes opt (aluRec key mn name g v b) = some [0x48 + m / 8, 0x83, modrm n m, v % 256] := by
  obtain ⟨t0, e0, s0, oc0, oi0, sr0, hid, hx, hz⟩ := hI
  obtain ⟨t1, e1, s1, oc1, oi1, hid1, hx1, hz1⟩ := hA
  have h3 : ¬ v ≤ 127 := by omega
  have h4 : 127 < v := by omega
  have h5 : ¬ v ≤ 224 := by omega
  have h6 : 18446744073709551361 ≤ v := by omega
  have h7 : 18446744069414584321 ≤ v := by omega
  have h8 : 4294967168 ≤ v := by omega
  have h9 : 268435456 ≤ v := by omega
  have h10 : 128 ≤ v := by omega
  have h11 : v ≤ 18446744073709551615 := by omega
  have h12 : ¬ v ≤ 4294967295 := by omega
  have h13 : ¬ v < 18446744073709551488 := by omega
  have h14 : 18446744073709551488 ≤ v := by omega
  have h15 : 128 ≤ v % 256 := by omega
  have h16 : v ≤ 18446744073709551614 := by omega
  have h17 : ¬ 18446744073709551614 < v := by omega
  simp only [regs64, List.mem_cons, Prod.mk.injEq, List.not_mem_nil, or_false] at hp
  rcases hp with ⟨rfl, rfl, rfl⟩ | ⟨rfl, rfl, rfl⟩ | ⟨rfl, rfl, rfl⟩ | ⟨rfl, rfl, rfl⟩ | ⟨rfl, rfl, rfl⟩ | ⟨rfl, rfl, rfl⟩ | ⟨rfl, rfl, rfl⟩ | ⟨rfl, rfl, rfl⟩ | ⟨rfl, rfl, rfl⟩ | ⟨rfl, rfl, rfl⟩ | ⟨rfl, rfl, rfl⟩ | ⟨rfl, rfl, rfl⟩ | ⟨rfl, rfl, rfl⟩ | ⟨rfl, rfl, rfl⟩ | ⟨rfl, rfl, rfl⟩ | ⟨rfl, rfl, rfl⟩
  all_goals (alu_resolve; alu_emit; rw [assembleImm_imm8] <;> aside)


set_option maxHeartbeats 4000000 in
/-- v = 2^64 − 1 (−1) -/
theorem leafCmax (key : Int) (mn : Str) (n o : Nat) (r r1 : Row) (hr : rowAt key = r) (hr1 : rowAt (key + 1) = r1)
    (hI : isI r n) (hA : isA r1 o)
    (m : Nat) (name : Str) (g : Nat) (hp : (m, name, g) ∈ regs64) (b : Bool) (opt : Nat) :
    lineBytes opt (aluRec key mn name g 18446744073709551615 b) = some [0x48 + m / 8, 0x83, modrm n m, 255] := by
  obtain ⟨t0, e0, s0, oc0, oi0, sr0, hid, hx, hz⟩ := hI
  obtain ⟨t1, e1, s1, oc1, oi1, hid1, hx1, hz1⟩ := hA
  simp only [regs64, List.mem_cons, Prod.mk.injEq, List.not_mem_nil, or_false] at hp
  rcases hp with ⟨rfl, rfl, rfl⟩ | ⟨rfl, rfl, rfl⟩ | ⟨rfl, rfl, rfl⟩ | ⟨rfl, rfl, rfl⟩ | ⟨rfl, rfl, rfl⟩ | ⟨rfl, rfl, rfl⟩ | ⟨rfl, rfl, rfl⟩ | ⟨rfl, rfl, rfl⟩ | ⟨rfl, rfl, rfl⟩ | ⟨rfl, rfl, rfl⟩ | ⟨rfl, rfl, rfl⟩ | ⟨rfl, rfl, rfl⟩ | ⟨rfl, rfl, rfl⟩ | ⟨rfl, rfl, rfl⟩ | ⟨rfl, rfl, rfl⟩ | ⟨rfl, rfl, rfl⟩
  all_goals (alu_resolve; alu_emit; rw [assembleImm_imm8] <;> aside)

set_option maxHeartbeats 4000000 in
/-- 0x80 ≤ v < 2^31: `REX.W 81 /n id`, the accumulator form for rax -/
theorem leafB (key : Int) (mn : Str) (n o : Nat) (r r1 : Row) (hr : rowAt key = r) (hr1 : rowAt (key + 1) = r1)
    (hI : isI r n) (hA : isA r1 o) (ho : o + 1 < 256)
    (m : Nat) (name : Str) (g : Nat) (hp : (m, name, g) ∈ regs64) (v : Nat) (b : Bool) (opt : Nat) (hv : 0x80 ≤ v) (hv2 : v < 0x80000000) :
    lineBytes opt (aluRec key mn name g v b) =
      some ((if m = 0 then [0x48, o + 1] else [0x48 + m / 8, 0x81, modrm n m]) ++ leBytes 4 v) := by
  obtain ⟨t0, e0, s0, oc0, oi0, sr0, hid, hx, hz⟩ := hI
  obtain ⟨t1, e1, s1, oc1, oi1, hid1, hx1, hz1⟩ := hA
  have h3 : ¬ v ≤ 127 := by omega
  have h4 : 127 < v := by omega
  have h6 : ¬ 18446744073709551361 ≤ v := by omega
  have h7 : ¬ 18446744069414584321 ≤ v := by omega
  have h8 : ¬ 4294967168 ≤ v := by omega
  have h10 : 128 ≤ v := by omega
  have h11 : v ≤ 18446744073709551614 := by omega
  have h12 : v ≤ 4294967295 := by omega
  have h13 : v < 18446744073709551488 := by omega
  have h14 : ¬ 18446744073709551488 ≤ v := by omega
  have h16 : ¬ v = 4294967295 := by omega
  have h17 : ¬ 18446744073709551614 < v := by omega
  have hm : v % 4294967296 = v := by omega
  have ho1 := and255 o (by omega)
  have ho2 := fixed_of_lt o (by omega)
  have ho3 : (o + 1) % 256 = o + 1 := Nat.mod_eq_of_lt ho
  simp only [regs64, List.mem_cons, Prod.mk.injEq, List.not_mem_nil, or_false] at hp
  rcases hp with ⟨rfl, rfl, rfl⟩ | ⟨rfl, rfl, rfl⟩ | ⟨rfl, rfl, rfl⟩ | ⟨rfl, rfl, rfl⟩ | ⟨rfl, rfl, rfl⟩ | ⟨rfl, rfl, rfl⟩ | ⟨rfl, rfl, rfl⟩ | ⟨rfl, rfl, rfl⟩ | ⟨rfl, rfl, rfl⟩ | ⟨rfl, rfl, rfl⟩ | ⟨rfl, rfl, rfl⟩ | ⟨rfl, rfl, rfl⟩ | ⟨rfl, rfl, rfl⟩ | ⟨rfl, rfl, rfl⟩ | ⟨rfl, rfl, rfl⟩ | ⟨rfl, rfl, rfl⟩
  all_goals (by_cases h5 : v ≤ 224 <;> by_cases h9 : 268435456 ≤ v)
  all_goals (first | (exfalso; omega) | skip)
  all_goals (alu_resolve; alu_emit)
  all_goals (first | (rw [assembleImm_dword] <;> aside) | (rw [assembleImm_reduced (n := 4)] <;> aside))


set_option maxHeartbeats 4000000 in
/-- 2^64 − 2^31 ≤ v < 2^64 − 0x80: `REX.W 81 /n id` with the low dword, the accumulator form for rax -/
theorem leafD (key : Int) (mn : Str) (n o : Nat) (r r1 : Row) (hr : rowAt key = r) (hr1 : rowAt (key + 1) = r1)
    (hI : isI r n) (hA : isA r1 o) (ho : o + 1 < 256)
    (m : Nat) (name : Str) (g : Nat) (hp : (m, name, g) ∈ regs64) (v : Nat) (b : Bool) (opt : Nat)
    (hv : 0xffffffff80000000 ≤ v) (hv2 : v < 0xffffffffffffff80) :
    lineBytes opt (aluRec key mn name g v b) =
      some ((if m = 0 then [0x48, o + 1] else [0x48 + m / 8, 0x81, modrm n m]) ++ leBytes 4 (v % 2 ^ 32)) := by
  obtain ⟨t0, e0, s0, oc0, oi0, sr0, hid, hx, hz⟩ := hI
  obtain ⟨t1, e1, s1, oc1, oi1, hid1, hx1, hz1⟩ := hA
  have h3 : ¬ v ≤ 127 := by omega
  have h4 : 127 < v := by omega
  have h5 : ¬ v ≤ 224 := by omega
  have h7 : 18446744069414584321 ≤ v := by omega
  have h8 : 4294967168 ≤ v := by omega
  have h10 : 128 ≤ v := by omega
  have h11 : v ≤ 18446744073709551614 := by omega
  have h11' : v ≤ 18446744073709551615 := by omega
  have h12 : ¬ v ≤ 4294967295 := by omega
  have h13 : v < 18446744073709551488 := by omega
  have h14 : ¬ 18446744073709551488 ≤ v := by omega
  have h16 : ¬ v = 4294967295 := by omega
  have h17 : ¬ 18446744073709551614 < v := by omega
  have hb7 : 18446744073709551361 ≤ v → ¬ 128 ≤ v % 256 := by omega
  have hm1 : 2147483648 ≤ v % 4294967296 := by omega
  have hm2 : v % 4294967296 ≠ 0 := by omega
  have hm3 : 256 ^ (4 - 1) ≤ v % 4294967296 := by omega
  have hm4 : v % 4294967296 < 256 ^ 4 := by omega
  have ho1 := and255 o (by omega)
  have ho2 := fixed_of_lt o (by omega)
  have ho3 : (o + 1) % 256 = o + 1 := Nat.mod_eq_of_lt ho
  simp only [regs64, List.mem_cons, Prod.mk.injEq, List.not_mem_nil, or_false] at hp
  rcases hp with ⟨rfl, rfl, rfl⟩ | ⟨rfl, rfl, rfl⟩ | ⟨rfl, rfl, rfl⟩ | ⟨rfl, rfl, rfl⟩ | ⟨rfl, rfl, rfl⟩ | ⟨rfl, rfl, rfl⟩ | ⟨rfl, rfl, rfl⟩ | ⟨rfl, rfl, rfl⟩ | ⟨rfl, rfl, rfl⟩ | ⟨rfl, rfl, rfl⟩ | ⟨rfl, rfl, rfl⟩ | ⟨rfl, rfl, rfl⟩ | ⟨rfl, rfl, rfl⟩ | ⟨rfl, rfl, rfl⟩ | ⟨rfl, rfl, rfl⟩ | ⟨rfl, rfl, rfl⟩
  all_goals (by_cases h6 : 18446744073709551361 ≤ v)
  all_goals (first | (have h6' := hb7 h6) | skip)
  all_goals (alu_resolve; alu_emit)
  all_goals (rw [assembleImm_reduced (n := 4)] <;> aside)


/-- the encodings of `<op> r64, v` for an immediate that sign-extends from 32 bits (n = the operation's /digit, o = its accumulator
    opcode minus one, m = register number 0..15): `REX.W 83 /n ib` when v sign-extends from 8 bits, else `REX.W 81 /n id`, or
    `REX.W <o+1> id` for rax -/
def aluBytes (n o m v : Nat) : Bytes :=
  if v ≤ 0x7f ∨ 0xffffffffffffff80 ≤ v then [0x48 + m / 8, 0x83, modrm n m, v % 256]
  else (if m = 0 then [0x48, o + 1] else [0x48 + m / 8, 0x81, modrm n m]) ++ leBytes 4 (v % 2 ^ 32)

/-- **`<op> r64, v` at the record level**: abstract table rows of the ALU-immediate shape, each of the 16 registers, EVERY v that
    sign-extends from 32 bits, every option byte -/
theorem alu_bytes (key : Int) (mn : Str) (n o : Nat) (r r1 : Row) (hr : rowAt key = r) (hr1 : rowAt (key + 1) = r1)
    (hI : isI r n) (hA : isA r1 o) (ho : o + 1 < 256)
    (m : Nat) (name : Str) (g : Nat) (hp : (m, name, g) ∈ regs64) (v : Nat) (hd : disp32 v) (b : Bool) (opt : Nat) :
    lineBytes opt (aluRec key mn name g v b) = some (aluBytes n o m v) := by
  unfold aluBytes
  by_cases hA' : v ≤ 0x7f
  · simp only [hA', true_or, if_true]
    rw [Nat.mod_eq_of_lt (by omega)]
    exact leafA key mn n o r r1 hr hr1 hI hA m name g hp v b opt hA'
  · by_cases hC : 0xffffffffffffff80 ≤ v
    · simp only [hC, or_true, if_true]
      rcases hd with hd | ⟨_, h64⟩
      · omega
      · by_cases hmax : v = 18446744073709551615
        · subst hmax
          exact leafCmax key mn n o r r1 hr hr1 hI hA m name g hp b opt
        · exact leafC key mn n o r r1 hr hr1 hI hA m name g hp v b opt hC (by omega)
    · simp only [hA', hC, or_self, if_false]
      rcases hd with hd | ⟨hlo, _⟩
      · rw [Nat.mod_eq_of_lt (by omega)]
        exact leafB key mn n o r r1 hr hr1 hI hA ho m name g hp v b opt (by omega) hd
      · exact leafD key mn n o r r1 hr hr1 hI hA ho m name g hp v b opt hlo (by omega)

/-! the rows of the regenerated table -/

def isIb (r : Row) : Bool :=
  r.type == 64 && r.enc == 504 && r.size == 3 && r.opcode.take 3 == [262144, 128, 131072] && r.opOffI == 1 &&
  r.id != 109 && r.id != 191 && r.id != 77
def isAb (r : Row) (o : Nat) : Bool :=
  r.type == 64 && r.enc == 505 && r.size == 2 && r.opcode.take 2 == [262144, o] && r.opOffI == 1 && r.id != 109 && r.id != 191 && r.id != 77

theorem isI_of (r : Row) (h : isIb r = true) : isI r r.singleReg := by
  unfold isIb at h
  simp only [Bool.and_eq_true, beq_iff_eq, bne_iff_ne, ne_eq] at h
  obtain ⟨⟨⟨⟨⟨⟨⟨h1, h2⟩, h3⟩, h4⟩, h5⟩, h6⟩, h7⟩, h8⟩ := h
  exact ⟨h1, h2, h3, h4, h5, rfl, h6, h7, h8⟩
theorem isA_of (r : Row) (o : Nat) (h : isAb r o = true) : isA r o := by
  unfold isAb at h
  simp only [Bool.and_eq_true, beq_iff_eq, bne_iff_ne, ne_eq] at h
  obtain ⟨⟨⟨⟨⟨⟨⟨h1, h2⟩, h3⟩, h4⟩, h5⟩, h6⟩, h7⟩, h8⟩ := h
  exact ⟨h1, h2, h3, h4, h5, h6, h7, h8⟩

/-- the `/digit` of an ALU-immediate row and the opcode of the accumulator row behind it -/
def digitOf (key : Int) : Nat := (rowAt key).singleReg
def accOp (key : Int) : Nat := (rowAt (key + 1)).opcode.getD 1 0

/-- an ALU-immediate key: the `80 /n` row followed by the accumulator row `8n+4` of the same operation -/
def aluKeyOk (key : Int) : Bool :=
  isIb (rowAt key) && isAb (rowAt (key + 1)) (accOp key) && decide (digitOf key < 8) && accOp key == 8 * digitOf key + 4

/-- every row of the regenerated table of type OPERATION whose operands are (register or memory, immediate) -/
def aluKeys : List Int :=
  ((List.range instrTable.length).map Int.ofNat).filter fun k => (rowAt k).type == 64 && (rowAt k).fmt1 == 7

/-- **every such row of the table has the ALU-immediate shape** -/
theorem aluKeys_classified : aluKeys.all aluKeyOk = true := by decide +kernel

example : aluKeys.length = 8 ∧ digitOf 10 = 0 ∧ accOp 10 = 4 := by decide +kernel

theorem alu_record (key : Int) (hk : key ∈ aluKeys) (mn : Str) (m : Nat) (name : Str) (g : Nat) (hp : (m, name, g) ∈ regs64)
    (v : Nat) (hd : disp32 v) (b : Bool) (opt : Nat) :
    lineBytes opt (aluRec key mn name g v b) = some (aluBytes (digitOf key) (8 * digitOf key + 4) m v) ∧ digitOf key < 8 := by
  have hc := aluKeys_classified
  rw [List.all_eq_true] at hc
  have h := hc key hk
  unfold aluKeyOk at h
  simp only [Bool.and_eq_true, decide_eq_true_eq, beq_iff_eq] at h
  obtain ⟨⟨⟨h1, h2⟩, h3⟩, h4⟩ := h
  refine ⟨?_, h3⟩
  rw [← h4]
  exact alu_bytes key mn _ _ _ _ rfl rfl (isI_of _ h1) (isA_of _ _ h2) (by rw [h4]; omega) m name g hp v hd b opt

theorem modrm_eq : ∀ n < 8, ∀ m < 16, modrm n m = 0xc0 + 8 * n + m % 8 := by decide

end AL.Lemmas.Alu
