/-
  C05 sweep — the whole quantifier domain of C05 (AL.Spec.X86Families) evaluated on the model of the
  library and the reference decoder.  This is a finite domain decided by EVALUATION: the proof term is
  `native_decide` (axiom Lean.ofReduceBool: the Lean compiler and interpreter are trusted for this
  theorem, the kernel does not re-check the computation — kernel evaluation of the text-level model
  costs about 55 ms per line, i.e. hours for this family).  Declared in the trusted base; the check
  also runs the same family on the C implementation itself.
-/
import AL.Properties.SweepDefs
import AL.Spec.X86FamiliesExtra
namespace AL.Properties.Sweep
open AL.Spec.X86

/-- **C05, every instance**: each relative branch x {none, short, long} x all rel8 values and the rel32
    boundary values x synonyms; rejected exactly where `short` / rel8-only cannot reach -/
theorem c05_sweep : sweep [14, 0] famC05 = true := by native_decide

/-- the same for literals written with more digits than a 64-bit number needs (family `famC05x`, AL/Spec/X86FamiliesExtra.lean) -/
theorem c05_sweep_padded : sweep [14, 0] famC05x = true := by native_decide

end AL.Properties.Sweep
