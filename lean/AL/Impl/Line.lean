/-
  AL.Impl.Line — src/parser.c: check_registers, all_opd_str_to_reg, line_to_instr, str_to_instr.
-/
import AL.Impl.Assembler
import AL.Impl.Filter
namespace AL.Impl
open AL AL.Gen

/-- `check_registers`: true = EXIT_FAILURE. -/
def checkRegistersFail (s : Instr) : Bool :=
  [s.opd0, s.opd1, s.opd2].any fun o =>
    (o.reg &&& c_reg_error) == c_reg_error || (o.index &&& c_reg_error) == c_reg_error

/-- `all_opd_str_to_reg` (operands 0..2 only, as in the C loops). -/
def allOpdStrToReg (s : Instr) : Instr :=
  let f (o : Operand) : Operand := { o with reg := strToReg o.str, index := strToReg o.sib }
  { s with opd0 := f s.opd0, opd1 := f s.opd1, opd2 := f s.opd2 }

/-- the zero-initialised record with `mod_disp = MOD24`.  (The option byte is not part of the
    record in the model: it is passed to the six places that read it, see `effNasm`; under SMART
    the C code clears the NASM bit here, src/parser.c:69.) -/
def initInstr : Instr := { modDisp := c_MOD24 }

/-- the operand-kind string `opd_type` (a C string: it ends at the first unused operand) -/
def opdTypeString (s : Instr) : Str :=
  ([s.opd0.type, s.opd1.type, s.opd2.type, s.opd3.type]).takeWhile (· != 0)

/-- "[MEM] no register": a memory operand without base and index gets `spl` and mod 00 -/
def memNoReg (s : Instr) : Instr :=
  let mi := s.memIndex
  let m := s.opd mi
  if m.type == ch! 'm' && m.str.isEmpty && m.sib.isEmpty then
    { (s.setOpd mi { m with reg := c_spl }) with modDisp := s.modDisp &&& c_MOD16 }
  else s

/-- `line_to_instr` after `instr_tok`: operand format, register conversion, table key -/
def lexAfterTok (s : Instr) : R Instr :=
  let fmt := getOpdFormat opdIndex (opdTypeString s)
  if fmt == c_opd_error then .error .fail else
  let s := memNoReg (allOpdStrToReg s)
  let key := strToInstrKey instrIndex s.instruction fmt
  if key == c_INSTR_ERROR then .error .fail else .ok { s with key := key }

/-- `line_to_instr` up to and including `str_to_instr_key` — the lexing half. -/
def lexLine (filtered : Str) : R Instr :=
  match instrTok initInstr filtered with
  | .error e => .error e
  | .ok s => lexAfterTok s

/-- relative branches: rel8 / rel32 decision and the two rejections (src/parser.c:93) -/
def resolveBranch (s : Instr) : R Instr :=
  if s.imm && typeIs s.key c_CONTROL_FLOW then
    let r : R Instr :=
      if inR s.cons c_NEG80_32BIT c_MAX_UNSIGNED_32BIT ||
         (s.cons ≤ c_MAX_SIGNED_8BIT && !s.kw.isLong)
      then .ok { s with kw := { s.kw with isShort := true } }
      else if s.cons > c_MAX_SIGNED_8BIT && s.cons < c_NEG80BIT && s.kw.isShort then .error Err.fail
      else .ok s
    match r with
    | .error e => .error e
    | .ok s =>
      if (rowAt s.key).enc == c_S && s.cons > c_MAX_SIGNED_8BIT && s.cons < c_NEG80BIT &&
         !inR s.cons c_NEG80_32BIT c_MAX_UNSIGNED_32BIT then .error .fail else .ok s
  else .ok s

/-- `key += is_short` where the next row is a rel8 row; `hex` initialisation -/
def selectShort (s : Instr) : Instr :=
  let s := if (rowAt (s.key + 1)).enc == c_S && s.kw.isShort then { s with key := s.key + 1 } else s
  { s with hex := { s.hex with reg := 0, rex := 0, sib := c_NO_BYTE } }

/-- push with an immediate above 0x7f uses the imm32 row (src/parser.c:129) -/
def pushAdjust (s : Instr) : Instr :=
  if nameIs s.key c_push && s.cons > c_MAX_SIGNED_8BIT && s.cons < c_NEG80BIT then
    let s := { s with key := s.key + 1 }
    if inR s.cons (c_NEG32BIT + 1) c_NEG64BIT && band s.cons c_NEG32BIT_CHECK
    then { s with cons := s.cons &&& c_MAX_UNSIGNED_32BIT } else s
  else s

/-- force a (negative) branch displacement to 32 bits (src/parser.c:114) -/
def branch32 (s : Instr) : Instr :=
  if typeIs s.key c_CONTROL_FLOW && inR s.cons (c_NEG32BIT + 1) c_NEG64BIT
  then { s with cons := s.cons &&& c_MAX_UNSIGNED_32BIT } else s

/-- encode only when the first operand has a register or index (src/parser.c:117) -/
def encodeIfRegs (opt : Nat) (s : Instr) : R Instr :=
  if s.opd0.reg != c_reg_none || s.opd0.index != c_reg_none then
    encodeOperands opt (encodeImm opt (encodeOffset s))
  else .ok s

/-- register check, 32-bit branch displacement, encoding, push imm8/imm32 selection -/
def resolveRest (opt : Nat) (s : Instr) : R Instr :=
  if checkRegistersFail s then .error .fail else
  match encodeIfRegs opt (branch32 s) with
  | .error e => .error e
  | .ok s => .ok (pushAdjust s)

/-- the rest of `line_to_instr`: branch width, register check, encoding. -/
def resolveLine (opt : Nat) (s : Instr) : R Instr :=
  match resolveBranch s with
  | .error e => .error e
  | .ok s => resolveRest opt (selectShort s)

/-- What one line of text turns into. -/
inductive LineOut
  | skip                 -- empty / label / section / global
  | code (bs : Bytes)    -- one instruction
deriving Repr, DecidableEq

/-- `str_to_instr` + `assemble_asm`: (result, characters consumed). The instruction record
    is built from scratch (`{0}`) for every line: there is no state argument. -/
def assembleLine (opt : Nat) (text : Str) : R LineOut × Nat :=
  match filterLine text with
  | none => (.error .fail, 0)
  | some (f, i) =>
    let n := lineLen text i
    if isSkipped f then (.ok .skip, n)
    else
      match lexLine f with
      | .error e => (.error e, n)
      | .ok s =>
        match resolveLine opt s with
        | .error e => (.error e, n)
        | .ok s => (.ok (.code (assembleAsm s)), n)

end AL.Impl
