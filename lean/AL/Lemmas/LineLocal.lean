/-
  AL.Lemmas.LineLocal — the library's per-line function `assembleLine opt` is line-local:
  the filter stops at the first CR/LF, and `str_to_instr` consumes exactly that line.
-/
import AL.Lemmas.Lines
namespace AL.Lemmas
open AL AL.Impl AL.Gen

theorem eol_stop (e : Ch) (h : eolCh e = true) : stopCh e = true := by
  unfold eolCh at h; unfold stopCh
  simp only [Bool.or_eq_true, beq_iff_eq] at h ⊢
  rcases h with h | h <;> simp [h]

/-- the filter never looks past the first line terminator -/
theorem filterGo_first (st : FState) (acc : Str) (j i : Nat) (l : Str) (e : Ch) (rest : Str)
    (he : eolCh e = true) : filterGo st acc j i (l ++ e :: rest) = filterGo st acc j i l := by
  induction l generalizing st acc j i with
  | nil => simp [filterGo, eol_stop e he]
  | cons c cs ih =>
    simp only [List.cons_append, filterGo]
    split
    · rfl
    · split
      · split
        · rfl
        · split
          · rfl
          · exact ih _ _ _ _
      · split
        · rfl
        · exact ih _ _ _ _

/-- the index at which the filter stops lies inside the text -/
theorem filterGo_index (st : FState) (acc : Str) (j i : Nat) (l : Str) (f : Str) (k : Nat)
    (h : filterGo st acc j i l = some (f, k)) : i ≤ k ∧ k ≤ i + l.length := by
  induction l generalizing st acc j i with
  | nil => simp [filterGo] at h; omega
  | cons c cs ih =>
    simp only [filterGo] at h
    split at h
    · simp at h; simp only [List.length_cons]; omega
    · split at h
      · split at h
        · cases h
        · split at h
          · cases h
          · have := ih _ _ _ _ h; simp only [List.length_cons]; omega
      · split at h
        · cases h
        · have := ih _ _ _ _ h; simp only [List.length_cons]; omega

theorem takeWhile_noeol (l : Str) (h : NoEol l) (tl : Str) (e : Ch) (he : eolCh e = true) :
    (l ++ e :: tl).takeWhile (fun c => !eolCh c) = l := by
  induction l with
  | nil => simp [List.takeWhile, he]
  | cons c cs ih =>
    have hc : eolCh c = false := h c List.mem_cons_self
    simp [List.takeWhile, hc, ih (fun d hd => h d (List.mem_cons_of_mem _ hd))]

theorem takeWhile_noeol' (l : Str) (h : NoEol l) : l.takeWhile (fun c => !eolCh c) = l := by
  induction l with
  | nil => rfl
  | cons c cs ih =>
    have hc : eolCh c = false := h c List.mem_cons_self
    simp [List.takeWhile, hc, ih (fun d hd => h d (List.mem_cons_of_mem _ hd))]

theorem noeol_drop (l : Str) (h : NoEol l) (i : Nat) : NoEol (l.drop i) :=
  fun c hc => h c (List.mem_of_mem_drop hc)

theorem lineLen_alone (l : Str) (h : NoEol l) (i : Nat) (hi : i ≤ l.length) : lineLen l i = l.length := by
  unfold lineLen
  dsimp only
  simp only [takeWhile_noeol' _ (noeol_drop l h i), List.length_drop]
  have : ¬ (i + (l.length - i) < l.length) := by omega
  simp only [this, if_false]; omega

theorem lineLen_first (l : Str) (h : NoEol l) (e : Ch) (he : eolCh e = true) (rest : Str) (i : Nat)
    (hi : i ≤ l.length) : lineLen (l ++ e :: rest) i = l.length + 1 := by
  unfold lineLen
  rw [List.drop_append, show i - l.length = 0 by omega, List.drop_zero]
  dsimp only
  rw [takeWhile_noeol _ (noeol_drop l h i) _ e he]
  simp only [List.length_drop, List.length_append, List.length_cons]
  have : i + (l.length - i) < l.length + (rest.length + 1) := by omega
  simp only [this, if_true]; omega

/-- **`assembleLine opt` is line-local.** -/
theorem assembleLine_local (opt : Nat) : LineLocal (assembleLine opt) where
  alone := by
    intro l hl lo hlo
    unfold assembleLine at hlo ⊢
    cases hf : filterLine l with
    | none => simp [hf] at hlo
    | some fi =>
      rcases fi with ⟨f, i⟩
      have hidx := filterGo_index _ _ _ _ _ _ _ hf
      simp only [Nat.zero_add] at hidx
      have hn := lineLen_alone l hl i hidx.2
      simp only [hn]
      split
      · rfl
      · split
        · rfl
        · split <;> rfl
  first := by
    intro l e rest hl he
    unfold assembleLine
    have hfl : filterLine (l ++ e :: rest) = filterLine l := filterGo_first _ _ _ _ _ _ _ he
    rw [hfl]
    cases hf : filterLine l with
    | none => exact ⟨rfl, fun lo h => by simp at h⟩
    | some fi =>
      rcases fi with ⟨f, i⟩
      have hidx := filterGo_index _ _ _ _ _ _ _ hf
      simp only [Nat.zero_add] at hidx
      have hn := lineLen_first l hl e he rest i hidx.2
      have hn2 := lineLen_alone l hl i hidx.2
      simp only [hn, hn2]
      split
      · exact ⟨rfl, fun _ _ => rfl⟩
      · split
        · exact ⟨rfl, fun _ _ => rfl⟩
        · split <;> exact ⟨rfl, fun _ _ => rfl⟩
  empty := by
    unfold assembleLine
    rfl

end AL.Lemmas
