/-
  AL.Impl.Parser — src/parser.c: check_len_or_resize, assemble_within_reserve, assemble, assemble_counting_chunks,
  assemble_with_chunk_fitting, assemble_all; nop_padding (src/assembler.c).

  The functions are generic in the per-line function `lf : Str → R LineOut × Nat`
  (instantiated with `assembleLine opt`), so the state-machine theorems hold for every
  per-line behaviour, not only today's encoder.
-/
import AL.Impl.Line
namespace AL.Impl
open AL AL.Gen

inductive Mode | count | fitting | assemble
deriving DecidableEq, Repr

/-- `struct assemblyline` plus the memory it points to.  `mem` is the buffer
    (`mem.length` = what the owner allocated); a write that falls outside it is not dropped
    but recorded in `oob`, so that "nothing outside the buffer changes" is a statement
    (`oob = []`), not an artefact of the representation. -/
structure Inst where
  external  : Bool
  bufLen    : Int            -- int buffer_len
  offset    : Int            -- int offset
  chunkSize : Nat            -- size_t
  mode      : Mode
  opt       : Nat            -- uint8_t assembly_opt
  mem       : List Nat
  oob       : List (Nat × Nat) := []   -- (index relative to buffer start, byte)
deriving Repr, DecidableEq

def toInt32 (x : Nat) : Int :=
  let y : Nat := x % 2 ^ 32
  if y < 2 ^ 31 then Int.ofNat y else Int.ofNat y - 2 ^ 32

def toU32 (x : Int) : Nat := (x % (2 ^ 32 : Int)).toNat

/-- store `bs` at index `pos` of the buffer -/
def writeAt (a : Inst) (pos : Nat) (bs : Bytes) : Inst :=
  if pos + bs.length ≤ a.mem.length then
    { a with mem := a.mem.take pos ++ bs ++ a.mem.drop (pos + bs.length) }
  else
    let inside := bs.take (a.mem.length - pos)
    let outside := bs.drop (a.mem.length - pos)
    let start := max pos a.mem.length
    { a with
      mem := if pos ≤ a.mem.length then a.mem.take pos ++ inside else a.mem
      oob := a.oob ++ (List.range outside.length).zip outside |>.map fun (k, b) => (start + k, b) }

/-- `check_len_or_resize(al, buf_pos)` with `buf_pos` converted to `int`; the growth of the
    internal buffer is `mremap`: same prefix, `MEM_BUFFER` more (zero) bytes. -/
def growBytes (a : Inst) (bufPos : Nat) : Nat :=
  -- `while (buf_pos + BUFFER_TOLERANCE > buffer_len) buffer_len += MEM_BUFFER`: as many quanta as the position needs
  (((toInt32 bufPos + (c_BUFFER_TOLERANCE : Int) - a.bufLen).toNat + c_MEM_BUFFER - 1) / c_MEM_BUFFER) * c_MEM_BUFFER

def checkLenOrResize (a : Inst) (bufPos : Nat) : R Inst :=
  if toInt32 bufPos + (c_BUFFER_TOLERANCE : Int) > a.bufLen then
    if a.external then .error .fail
    else .ok { a with bufLen := a.bufLen + growBytes a bufPos, mem := a.mem ++ List.replicate (growBytes a bufPos) 0 }
  else .ok a

/-- `nop_padding(buf, len)` bytes: entries of the regenerated NOP table, longest first. -/
def nopBytes : Nat → Nat → Bytes
  | 0, _ => []
  | fuel + 1, remaining =>
    if remaining == 0 then []
    else
      let len := if remaining > nopTable.length then nopTable.length else remaining
      nopTable.getD (len - 1) [] ++ nopBytes fuel (remaining - len)

def nopPadding (len : Nat) : Bytes := nopBytes len len

/-- per-call mutable locals of assemble_all -/
structure Run where
  a      : Inst
  bufPos : Nat            -- unsigned int
  brks   : Option Int     -- *dest, if dest ≠ NULL
deriving Repr

/-- emit one instruction `bs` according to the assembly mode (the `switch` in assemble_all).
    The run is returned also on failure: the buffer may already have been written to. -/
def emitOne (r : Run) (bs : Bytes) : Run × Option Err :=
  match r.a.mode with
  | .assemble =>
    match checkLenOrResize r.a r.bufPos with
    | .error e => (r, some e)
    | .ok a =>
      if bs.length > c_BUFFER_TOLERANCE then (r, some .fail) else
      ({ r with a := writeAt a r.bufPos bs, bufPos := (r.bufPos + bs.length) % 2 ^ 32 }, none)
  | .count =>
    match r.brks with
    | none => (r, some .fail)
    | some n =>
      match checkLenOrResize r.a r.bufPos with
      | .error e => (r, some e)
      | .ok a =>
        if a.chunkSize == 0 then (r, some (.ub "chunk counting: modulo by zero")) else
        let free := (a.chunkSize - r.bufPos % a.chunkSize) % 2 ^ 32
        if bs.length > c_BUFFER_TOLERANCE then (r, some .fail) else
        ({ a := writeAt a r.bufPos bs
           bufPos := (r.bufPos + bs.length) % 2 ^ 32
           brks := some (if bs.length > free then n + 1 else n) }, none)
  | .fitting =>
    match checkLenOrResize r.a r.bufPos with
    | .error e => (r, some e)
    | .ok a =>
      if a.chunkSize == 0 then (r, some (.ub "chunk fitting: modulo by zero")) else
      let free := a.chunkSize - r.bufPos % a.chunkSize
      if bs.length > c_BUFFER_TOLERANCE then (r, some .fail) else
      let a := writeAt a r.bufPos bs
      if bs.length ≤ free || bs.length ≥ a.chunkSize then
        ({ r with a := a, bufPos := (r.bufPos + bs.length) % 2 ^ 32 }, none)
      else
        -- pad to the boundary, then go round the do-while loop a second time
        let a := writeAt a r.bufPos (nopPadding free)
        let bufPos := (r.bufPos + free) % 2 ^ 32
        match checkLenOrResize a bufPos with
        | .error e => ({ r with a := a, bufPos := bufPos }, some e)
        | .ok a =>
          let free2 := a.chunkSize - bufPos % a.chunkSize
          -- (the length test of assemble_within_reserve cannot fail here: it passed above)
          let a := writeAt a bufPos bs
          if bs.length ≤ free2 || bs.length ≥ a.chunkSize then
            ({ r with a := a, bufPos := (bufPos + bs.length) % 2 ^ 32 }, none)
          else ({ r with a := a, bufPos := bufPos }, some (.ub "chunk fitting: third loop iteration"))

/-- result of `assemble_all`: the instance (memory may have changed even on failure),
    the return value (`none` = ASM_ERROR) and `*dest`. -/
structure AllRes where
  a    : Inst
  ret  : Except Err Nat
  brks : Option Int
deriving Repr

/-- the `while (*tokenizer != '\0')` loop; `fuel` ≥ number of lines suffices (each iteration
    consumes at least one character, see `Lemmas.lineLen_pos`). -/
def assembleAllGo (lf : Str → R LineOut × Nat) : Nat → Run → Str → AllRes
  | 0, r, _ => { a := r.a, ret := .error (.ub "assemble_all: out of fuel"), brks := r.brks }
  | fuel + 1, r, text =>
    match text with
    | [] => { a := r.a, ret := .ok r.bufPos, brks := r.brks }
    | _ =>
      match lf text with
      | (.error e, _) => { a := r.a, ret := .error e, brks := r.brks }
      | (.ok .skip, n) => assembleAllGo lf fuel r (text.drop n)
      | (.ok (.code bs), n) =>
        match emitOne r bs with
        | (r', some e) => { a := r'.a, ret := .error e, brks := r'.brks }
        | (r', none) => assembleAllGo lf fuel r' (text.drop n)

/-- `assemble_all(al, str, dest)`; `hasDest` says whether `dest` is non-NULL. -/
def assembleAll (lf : Str → R LineOut × Nat) (a : Inst) (text : Str) (hasDest : Bool) : AllRes :=
  assembleAllGo lf (text.length + 1)
    { a := a, bufPos := toU32 a.offset, brks := if hasDest then some 0 else none } text

end AL.Impl
