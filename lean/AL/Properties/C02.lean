/-
  C02 — memory operands encode exactly the written effective address.

  Statement: for every instance d of the family — every entry of the reference table with a
  memory-capable operand over base x index x scale x displacement x address size —
      decode (assemble (render d)) ≈ d
  where ≈ lets the memory operand differ only by an encoding of the SAME address for every register
  valuation (AL.Spec.X86.sameMem: same width, address size, per-register coefficient, displacement).
   * `Sweep.c02_sweep`            — the quick family (≈ 108 000 instances x NASM / STRICT SIB handling) on the
                                    model, by evaluation;
   * `disp_field_reads_back`      — kernel-checked, for EVERY displacement value: the constant bytes the
                                    model emits, with any zero padding, read back as that value, and every
                                    signed 8/32-bit displacement is recovered from its two's complement
                                    field (the decoder side of "sign-extended displacement as written");
   * C11 `swap_same_address`, `nobase_scale2_same_address`, `nobase_scale1_same_address` — the NASM rewritings
                                    keep the address, for every register valuation.
-/
import AL.Properties.Sweep.C02
import AL.Spec.X86Lemmas
import AL.Properties.C11
namespace AL.Properties.C02
open AL AL.Impl AL.Spec.X86

/-- **every displacement reads back**: unsigned field value and signed interpretation -/
theorem disp_field_reads_back :
    (∀ (c k : Nat), c < 2 ^ 64 → leVal (assembleConst c ++ List.replicate k 0) = c) ∧
    (∀ d : Int, -128 ≤ d → d < 128 → toSigned 8 (d % 256).toNat = d) ∧
    (∀ d : Int, -2147483648 ≤ d → d < 2147483648 → toSigned 32 (d % 4294967296).toNat = d) :=
  ⟨fun c k h => leVal_assembleConst c h k,
   fun d h1 h2 => toSigned_roundtrip 8 (by decide) d (by simpa using h1) (by simpa using h2),
   fun d h1 h2 => toSigned_roundtrip 32 (by decide) d (by simpa using h1) (by simpa using h2)⟩

end AL.Properties.C02
