/-
  AL.Impl.Api — src/assemblyline.c: instance creation, option setters, chunk size, offset,
  the string entry points.  (File entry points: AL.Impl.File; OS faults: AL.Impl.Faults.)
-/
import AL.Impl.Parser
namespace AL.Impl
open AL AL.Gen

/-- `asm_create_instance(buffer, len)` on a caller buffer whose current contents are `fill`. -/
def createExternal (len : Int) (fill : List Nat) : Inst :=
  { external := true, bufLen := len, offset := 0, chunkSize := 1, mode := .assemble,
    opt := c_DEFAULT, mem := fill }

/-- `asm_create_instance(NULL, _)`: anonymous zero-filled mapping of MEM_BUFFER + BUFFER_TOLERANCE. -/
def createInternal : Inst :=
  { external := false, bufLen := c_MEM_BUFFER + c_BUFFER_TOLERANCE, offset := 0, chunkSize := 1,
    mode := .assemble, opt := c_DEFAULT,
    mem := List.replicate (c_MEM_BUFFER + c_BUFFER_TOLERANCE) 0 }

def clr (x m : Nat) : Nat := x &&& (255 - m)

/-- `asm_mov_imm` on the option byte; `v` is the raw `enum asm_opt` argument. -/
def movImmBits (o : Nat) (v : Nat) : Nat :=
  if v == c_NASM then clr (o ||| c_NASM_MOV_IMM) c_SMART_MOV_IMM
  else if v == c_STRICT then clr o (c_NASM_MOV_IMM ||| c_SMART_MOV_IMM)
  else if v == c_SMART then clr (o ||| c_SMART_MOV_IMM) c_NASM_MOV_IMM
  else o

def swapBits (o : Nat) (v : Nat) : Nat :=
  if v == c_NASM then o ||| c_NASM_SIB_INDEX_BASE_SWAP
  else if v == c_STRICT then clr o c_NASM_SIB_INDEX_BASE_SWAP
  else o

def noBaseBits (o : Nat) (v : Nat) : Nat :=
  if v == c_NASM then o ||| c_NASM_SIB_NO_BASE
  else if v == c_STRICT then clr o c_NASM_SIB_NO_BASE
  else o

def sibBits (o : Nat) (v : Nat) : Nat :=
  if v == c_NASM then noBaseBits (swapBits o c_NASM) c_NASM
  else if v == c_STRICT then noBaseBits (swapBits o c_STRICT) c_STRICT
  else o

def setAllBits (o : Nat) (v : Nat) : Nat :=
  if v == c_NASM then noBaseBits (swapBits (movImmBits o c_NASM) c_NASM) c_NASM
  else if v == c_STRICT then noBaseBits (swapBits (movImmBits o c_STRICT) c_STRICT) c_STRICT
  else if v == c_SMART then movImmBits o c_SMART
  else o

inductive Setter | mov | sib | swap | nobase | all
deriving DecidableEq, Repr

def Setter.bits : Setter → Nat → Nat → Nat
  | .mov => movImmBits | .sib => sibBits | .swap => swapBits
  | .nobase => noBaseBits | .all => setAllBits

def applySetter (a : Inst) (w : Setter) (v : Nat) : Inst := { a with opt := w.bits a.opt v }

/-- `asm_set_chunk_size(al, chunk_size)`. -/
def setChunkSize (a : Inst) (c : Nat) : Inst :=
  if c < 2 then { a with mode := .assemble } else { a with chunkSize := c, mode := .fitting }

def setOffset (a : Inst) (k : Int) : Inst := { a with offset := k }

/-- the per-line function as a function of the option byte -/
abbrev LineFnOf := Nat → Str → R LineOut × Nat

/-- `asm_assemble_str`, generic in the per-line function: new instance state and the return
    value; an `Err.ub` is passed through for the harness to see. -/
def asmAssembleStrWith (lfo : LineFnOf) (a : Inst) (text : Str) : Inst × Except Err Unit :=
  let res := assembleAll (lfo a.opt) a text false
  match res.ret with
  | .error e => (res.a, .error e)
  | .ok bp => ({ res.a with offset := toInt32 bp }, .ok ())

/-- the instance as `asm_assemble_string_counting_chunks` sets it up for the duration of the call -/
def countSetup (a : Inst) (c : Int) : Inst :=
  { a with mode := if c < 2 then .assemble else .count,
           chunkSize := (c % (2 ^ 64 : Int)).toNat }

/-- `asm_assemble_string_counting_chunks(al, str, chunk_size, dest)`, generic in the per-line
    function; result: instance, return value, `*dest` (if `dest` was given). -/
def asmCountingChunksWith (lfo : LineFnOf) (a : Inst) (text : Str) (c : Int) (hasDest : Bool) :
    Inst × Except Err Unit × Option Int :=
  let savedMode := a.mode
  let savedChunk := a.chunkSize
  let a1 := countSetup a c
  let res := assembleAll (lfo a1.opt) a1 text hasDest
  let a2 := { res.a with mode := savedMode, chunkSize := savedChunk }
  match res.ret with
  | .error e => (a2, .error e, res.brks)
  | .ok bp => ({ a2 with offset := toInt32 bp }, .ok (), res.brks)

/-- the library: the per-line function is `assembleLine` -/
def asmAssembleStr : Inst → Str → Inst × Except Err Unit := asmAssembleStrWith assembleLine

def asmCountingChunks : Inst → Str → Int → Bool → Inst × Except Err Unit × Option Int :=
  asmCountingChunksWith assembleLine

end AL.Impl
