/-
  C03 — see AL.Spec.X86 (reference decoder) and AL.Spec.X86Families (quantifier domain).
-/
import AL.Spec.X86Families
import AL.Impl.Line
namespace AL.Properties.C03
end AL.Properties.C03
