/-
  AL.Lemmas.Lines — a text is processed line by line: `items` depends only on the list of
  lines (split at every CR or LF) and on what the per-line function says about each line alone.
-/
import AL.Lemmas.Layout
namespace AL.Lemmas
open AL AL.Impl AL.Gen

/-- split a text at every CR or LF (the terminators are dropped) -/
def splitEol : Str → List Str
  | [] => [[]]
  | c :: cs =>
    if eolCh c then [] :: splitEol cs
    else match splitEol cs with
      | [] => [[c]]
      | l :: ls => (c :: l) :: ls

def NoEol (l : Str) : Prop := ∀ c ∈ l, eolCh c = false

/-- a per-line function looks only at the first line of the text it is given, consumes it
    together with its terminator, and skips an empty text -/
structure LineLocal (lf : Str → R LineOut × Nat) : Prop where
  alone : ∀ l, NoEol l → ∀ lo, (lf l).1 = .ok lo → (lf l).2 = l.length
  first : ∀ l e rest, NoEol l → eolCh e = true →
    (lf (l ++ e :: rest)).1 = (lf l).1 ∧ ∀ lo, (lf l).1 = .ok lo → (lf (l ++ e :: rest)).2 = l.length + 1
  empty : (lf []).1 = .ok .skip

/-- what a list of lines yields when each line is assembled alone -/
def itemsL (lf : Str → R LineOut × Nat) : List Str → Items
  | [] => ⟨[], none⟩
  | l :: ls =>
    match (lf l).1 with
    | .error e => ⟨[], some e⟩
    | .ok .skip => itemsL lf ls
    | .ok (.code bs) => ⟨bs :: (itemsL lf ls).codes, (itemsL lf ls).err⟩

theorem splitEol_ne_nil (t : Str) : splitEol t ≠ [] := by
  cases t with
  | nil => simp [splitEol]
  | cons c cs =>
    unfold splitEol
    split
    · simp
    · split <;> simp

theorem splitEol_noeol (l : Str) (h : NoEol l) : splitEol l = [l] := by
  induction l with
  | nil => rfl
  | cons c cs ih =>
    have hc : eolCh c = false := h c (List.mem_cons_self)
    have := ih (fun d hd => h d (List.mem_cons_of_mem _ hd))
    simp [splitEol, hc, this]

theorem splitEol_append (l : Str) (e : Ch) (rest : Str) (h : NoEol l) (he : eolCh e = true) :
    splitEol (l ++ e :: rest) = l :: splitEol rest := by
  induction l with
  | nil => simp [splitEol, he]
  | cons c cs ih =>
    have hc : eolCh c = false := h c (List.mem_cons_self)
    have := ih (fun d hd => h d (List.mem_cons_of_mem _ hd))
    simp [splitEol, hc, this]

/-- every text is an eol-free line, possibly followed by a terminator and more text -/
theorem first_line (t : Str) : (NoEol t) ∨ ∃ l e rest, t = l ++ e :: rest ∧ NoEol l ∧ eolCh e = true := by
  induction t with
  | nil => left; intro c h; exact nomatch h
  | cons c cs ih =>
    by_cases hc : eolCh c = true
    · right; exact ⟨[], c, cs, rfl, (fun d h => nomatch h), hc⟩
    · have hc' : eolCh c = false := by simpa using hc
      rcases ih with h | ⟨l, e, rest, rfl, hl, he⟩
      · left
        intro d hd
        rcases List.mem_cons.1 hd with rfl | hd
        · exact hc'
        · exact h d hd
      · right
        refine ⟨c :: l, e, rest, rfl, ?_, he⟩
        intro d hd
        rcases List.mem_cons.1 hd with rfl | hd
        · exact hc'
        · exact hl d hd

theorem itemsL_nil_line (lf : Str → R LineOut × Nat) (h : LineLocal lf) (ls : List Str) :
    itemsL lf ([] :: ls) = itemsL lf ls := by
  simp [itemsL, h.empty]

/-- **`items` only sees the lines**: with enough fuel (one unit per line suffices, the text
    length + 1 is what `assemble_all` is given) the result is that of the lines taken alone. -/
theorem items_eq_itemsL (lf : Str → R LineOut × Nat) (h : LineLocal lf) (fuel : Nat) (t : Str)
    (hf : t.length < fuel) : items lf fuel t = itemsL lf (splitEol t) := by
  induction fuel generalizing t with
  | zero => omega
  | succ fuel ih =>
    unfold items
    cases t with
    | nil => simp [splitEol, itemsL, h.empty]
    | cons c cs =>
      simp only
      rcases first_line (c :: cs) with hne | ⟨l, e, rest, heq, hl, he⟩
      · -- a single line without terminator
        rw [splitEol_noeol _ hne]
        have hn := h.alone (c :: cs) hne
        rcases hlf : lf (c :: cs) with ⟨res, n⟩
        rw [hlf] at hn
        simp only at hn
        have hdrop : List.drop (c :: cs).length (c :: cs) = [] := List.drop_length
        cases res with
        | error er => simp [itemsL, hlf]
        | ok lo =>
          have hn' := hn lo rfl
          subst hn'
          cases lo with
          | skip =>
            simp only [itemsL, hlf, hdrop]
            cases fuel with
            | zero => simp at hf
            | succ f => simp [items]
          | code bs =>
            simp only [itemsL, hlf, hdrop]
            cases fuel with
            | zero => simp at hf
            | succ f => simp [items]
      · rw [heq, splitEol_append l e rest hl he]
        obtain ⟨hfst, hsnd⟩ := h.first l e rest hl he
        have hdrop : List.drop (l.length + 1) (l ++ e :: rest) = rest := by
          rw [List.drop_append, List.drop_eq_nil_of_le (by omega)]
          simp
        have hlen : rest.length < fuel := by
          have := congrArg List.length heq
          simp only [List.length_cons, List.length_append] at this
          simp only [List.length_cons] at hf
          omega
        rcases hlf : lf (l ++ e :: rest) with ⟨res, n⟩
        rw [hlf] at hfst hsnd
        simp only at hfst hsnd
        cases res with
        | error er => simp [itemsL, ← hfst]
        | ok lo =>
          have hn := hsnd lo hfst.symm
          subst hn
          cases lo with
          | skip => simp only [itemsL, ← hfst, hdrop]; exact ih rest hlen
          | code bs => simp only [itemsL, ← hfst, hdrop, ih rest hlen]

theorem splitEol_split (t1 : Str) (e : Ch) (t2 : Str) (he : eolCh e = true) :
    splitEol (t1 ++ e :: t2) = splitEol t1 ++ splitEol t2 := by
  induction t1 with
  | nil => simp [splitEol, he]
  | cons c cs ih =>
    simp only [List.cons_append, splitEol]
    by_cases hc : eolCh c = true
    · simp [hc, ih]
    · simp only [hc, ih]
      have hne := splitEol_ne_nil cs
      cases hs : splitEol cs with
      | nil => exact absurd hs hne
      | cons l ls => simp

theorem itemsL_append (lf : Str → R LineOut × Nat) (ls1 ls2 : List Str) :
    itemsL lf (ls1 ++ ls2) =
      match (itemsL lf ls1).err with
      | some e => ⟨(itemsL lf ls1).codes, some e⟩
      | none => ⟨(itemsL lf ls1).codes ++ (itemsL lf ls2).codes, (itemsL lf ls2).err⟩ := by
  induction ls1 with
  | nil => simp [itemsL]
  | cons l ls ih =>
    simp only [List.cons_append, itemsL]
    cases hres : (lf l).1 with
    | error er => simp
    | ok lo =>
      cases lo with
      | skip => simp only [ih]
      | code bs =>
        simp only [ih]
        cases (itemsL lf ls).err <;> simp

end AL.Lemmas
