/-
  AL.Lemmas.MemText — the first half of the per-line pipeline on the text `mov rax, [<base>±0x<digits>]` for a SYMBOLIC
  displacement: the memory scanners of src/reg_parser.c (`find_add_mem`, `find_mem_const`, `get_index_reg`, `get_reg_str`),
  `strtoul` up to the closing bracket, `process_neg_disp` / `get_mod_disp`, the tokenizer and the table lookups (`memTok_hex`,
  `lex_mem`), the line filter and the skip test — composed with AL.Lemmas.MemLoad into `mem_line`: the whole of `assembleLine`
  on that text for each of the 16 base registers, both signs, every displacement and every option byte.
-/
import AL.Lemmas.MemLoad
import AL.Lemmas.MovText
import AL.Properties.C03
namespace AL.Lemmas.MemText
open AL AL.Impl AL.Gen AL.Lemmas AL.Lemmas.MovText AL.Lemmas.MovImm AL.Lemmas.MemLoad

/-- `digitsVal` over valid digits followed by a character that is no digit stops there -/
theorem digitsVal_digits_then (b : Nat) (hb : b ≤ 16) (ds : List Nat) (hds : ∀ d ∈ ds, d < b) (acc : Nat) (seen : Bool)
    (c : Nat) (hc : digitVal c = none) (rest : Str) :
    digitsVal b acc seen (ds.map digitCh ++ c :: rest) =
      (ds.foldl (fun a d => a * b + d) acc, c :: rest, seen || !ds.isEmpty) := by
  induction ds generalizing acc seen with
  | nil => simp [digitsVal, hc]
  | cons d ds ih =>
    have hd : d < b := hds d List.mem_cons_self
    simp only [List.map_cons, List.cons_append, digitsVal]
    rw [digitVal_digitCh d (by omega)]
    simp only [hd, if_true]
    rw [ih (fun x hx => hds x (List.mem_cons_of_mem _ hx))]
    simp

/-- **`strtoul("0x<digits>]...", 16)`**: the hexadecimal number in front of the closing bracket -/
theorem strtoul_hex_then (k n : Nat) (hn : n < 2 ^ 64) (c : Nat) (hc : digitVal c = none) (rest : Str) :
    strtoul (48 :: 120 :: (hexDigs k n ++ c :: rest)) 16 = n := by
  obtain ⟨hlt, hval, hne⟩ := hexDigs_props k n hn
  unfold strtoul strtoulEnd
  have h0 : (48 :: 120 :: (hexDigs k n ++ c :: rest)).dropWhile isSpaceC = 48 :: 120 :: (hexDigs k n ++ c :: rest) := by
    simp [List.dropWhile, isSpaceC]
  have hs : stripSign (48 :: 120 :: (hexDigs k n ++ c :: rest)) = (false, 48 :: 120 :: (hexDigs k n ++ c :: rest)) := by
    unfold stripSign; rfl
  rw [h0, hs]
  simp only [beq_self_eq_true, if_true]
  have hp : stripHexPrefix (48 :: 120 :: (hexDigs k n ++ c :: rest)) = hexDigs k n ++ c :: rest := by
    unfold stripHexPrefix
    simp only [show ((120 : Nat) == 120 || (120 : Nat) == 88) = true by decide, Bool.true_and]
    unfold hexDigs at *
    cases hl : List.replicate k 0 ++ digs 16 16 n with
    | nil => exact absurd hl hne
    | cons a b =>
      have ha : a < 16 := hlt a (by rw [hl]; exact List.mem_cons_self)
      simp only [List.map_cons, List.cons_append, digitVal_digitCh a ha, decide_eq_true_eq, ha, if_true]
  rw [hp]
  unfold hexDigs
  rw [digitsVal_digits_then 16 (by decide) _ hlt 0 false c hc rest, hval, strtoulResult_small false n hn]
  simp

/-- `strtoul("<digits>]...", 10)` for a decimal numeral with leading zeros -/
theorem strtoul_dec_then (k n : Nat) (hn : n < 2 ^ 64) (c : Nat) (hc : digitVal c = none) (rest : Str) :
    strtoul (decDigs k n ++ c :: rest) 10 = n := by
  obtain ⟨hlt, hval, hne⟩ := decDigs_props k n hn
  obtain ⟨d, r, hd, hds⟩ := decDigs_head k n hn
  unfold strtoul strtoulEnd
  rw [hds]
  simp only [List.cons_append]
  rw [dropWhile_space_digit d (by omega), stripSign_digit d (by omega)]
  simp only [show ((10 : Nat) == 16) = false by decide, Bool.false_eq_true, if_false]
  rw [← List.cons_append, ← hds]
  unfold decDigs
  rw [digitsVal_digits_then 10 (by decide) _ hlt 0 false c hc rest, hval, strtoulResult_small false n hn]
  simp


/-- `get_index_reg` finds no index register when the expression has no `*` and every `+` is followed by something that is not a
    lower-case letter (i.e. by a number) -/
theorem getIndexRegGo_none (mem : Str) (len : Nat) (sib : Nat)
    (hstar : ∀ j, j < len → chAt mem j ≠ 42)
    (hplus : ∀ j, j + 1 < len → chAt mem j = 43 → isLower (chAt mem (j + 1)) = false) :
    ∀ (fuel i : Nat) (plus : Bool), (plus = true → i < len → isLower (chAt mem i) = false) → len - i ≤ fuel →
      getIndexRegGo mem len plus false sib fuel i = some (sib, []) := by
  intro fuel
  induction fuel with
  | zero => intro i plus _ _; rfl
  | succ fuel ih =>
    intro i plus hpl hf
    unfold getIndexRegGo
    by_cases hi : i ≥ len
    · simp [hi]
    · have hi' : i < len := Nat.lt_of_not_ge hi
      simp only [hi, if_false, Bool.false_or]
      have hcond : (plus && isLower (chAt mem i)) = false := by
        cases plus
        · rfl
        · simp [hpl rfl hi']
      simp only [hcond, Bool.false_eq_true, if_false]
      have hs : (chAt mem i == 42) = false := by rw [beq_eq_false_iff_ne]; exact hstar i hi'
      simp only [hs, Bool.false_and, Bool.false_eq_true, if_false]
      apply ih
      · intro hp hlt
        have : chAt mem i = 43 := by simpa using hp
        exact hplus i hlt this
      · omega


/-- every `+` of the list is followed by something that is not a lower-case letter -/
def plusOk : Str → Bool
  | a :: b :: t => (a != 43 || !isLower b) && plusOk (b :: t)
  | _ => true

theorem plusOk_no_plus : ∀ (l : Str), (∀ c ∈ l, c ≠ 43) → plusOk l = true := by
  intro l
  induction l with
  | nil => intro _; rfl
  | cons a r ih =>
    intro h
    cases r with
    | nil => rfl
    | cons b t =>
      unfold plusOk
      have ha : a ≠ 43 := h a List.mem_cons_self
      simp [ha, ih (fun c hc => h c (List.mem_cons_of_mem _ hc))]

theorem plusOk_chAt : ∀ (l : Str), plusOk l = true → ∀ j, j + 1 < l.length → chAt l j = 43 → isLower (chAt l (j + 1)) = false := by
  intro l
  induction l with
  | nil => intro _ j hj; simp at hj
  | cons a r ih =>
    intro h j hj hc
    cases r with
    | nil => simp at hj
    | cons b t =>
      unfold plusOk at h
      simp only [Bool.and_eq_true, Bool.or_eq_true, bne_iff_ne, ne_eq, Bool.not_eq_true'] at h
      cases j with
      | zero =>
        have : a = 43 := by simpa [chAt] using hc
        rcases h.1 with h1 | h1
        · exact absurd this h1
        · simpa [chAt] using h1
      | succ j =>
        have := ih h.2 j (by simp only [List.length_cons] at hj ⊢; omega) (by simpa [chAt] using hc)
        simpa [chAt] using this

/-- `[` body `]` with no bracket inside has exactly one pair of brackets -/
theorem oneBracketPair_of (body : Str) (hb : ∀ c ∈ body, c ≠ 91 ∧ c ≠ 93) : oneBracketPair (91 :: (body ++ [93])) = true := by
  unfold oneBracketPair
  have h1 : (body ++ [93]).filter (· == 91) = [] := by
    rw [List.filter_eq_nil_iff]
    intro c hc
    simp only [List.mem_append, List.mem_cons, List.not_mem_nil, or_false] at hc
    rcases hc with h | rfl
    · have := (hb c h).1; simp [this]
    · decide
  have h2 : (body ++ [93]).idxOf 93 = body.length := by
    have hn : ¬ 93 ∈ body := fun h => (hb 93 h).2 rfl
    rw [List.idxOf_append]
    simp [hn, List.idxOf_cons]
  have h3 : (91 :: (body ++ [93])).idxOf 93 = body.length + 1 := by
    rw [List.idxOf_cons, h2]
    rfl
  simp only [List.filter_cons, show ((91 : Nat) == 91) = true by decide, if_true, h1, List.length_cons, List.length_nil, h3,
    List.length_append]
  simp

/-- the memory text `[<base>+0x<digits>]` and what the scanners need to know about it -/
theorem mem_scan_facts (mem : Str) (hs : ∀ c ∈ mem, c ≠ 42) (hp : plusOk mem = true) (hne : mem ≠ []) (hlast : chAt mem (mem.length - 1) = 93)
    (hob : oneBracketPair mem = true) :
    getIndexReg mem = some (c_SIB, []) := by
  unfold getIndexReg
  have h1 : mem.isEmpty = false := by cases mem with | nil => exact absurd rfl hne | cons a b => rfl
  simp only [h1, Bool.false_eq_true, if_false, hlast, bne_self_eq_false, hob, Bool.not_true]
  exact getIndexRegGo_none mem mem.length c_SIB (fun j _ => chAt_ne mem j 42 (by decide) hs)
    (fun j hj hc => plusOk_chAt mem hp j hj hc) mem.length 0 false (fun h => by cases h) (by omega)


theorem digitVal_bracket : digitVal 93 = none := by decide

theorem numCh_plain2 (c : Nat) (h : numCh c = true) : c ≠ 42 ∧ c ≠ 43 ∧ c ≠ 93 ∧ c ≠ 91 := by
  unfold numCh at h
  simp only [Bool.or_eq_true, Bool.and_eq_true, decide_eq_true_eq, beq_iff_eq] at h
  omega

theorem chAt_last_of_getLast (l : Str) (x : Nat) (h : l.getLast? = some x) : chAt l (l.length - 1) = x := by
  unfold chAt
  rw [List.getD_eq_getElem?_getD, ← List.getLast?_eq_getElem?, h]
  rfl

/-- the sign character of a displacement and whether it negates -/
def signNeg (sg : Nat) : Bool := sg == 45

theorem regname_chars (n : Nat) (name : Str) (g : Nat) (hp : (n, name, g) ∈ regs64) :
    (∀ c ∈ name, c ≠ 42 ∧ c ≠ 43 ∧ c ≠ 93 ∧ c ≠ 91 ∧ c ≠ 45) ∧ name ≠ [] := by
  simp only [regs64, List.mem_cons, Prod.mk.injEq, List.not_mem_nil, or_false] at hp
  rcases hp with ⟨rfl, rfl, rfl⟩ | ⟨rfl, rfl, rfl⟩ | ⟨rfl, rfl, rfl⟩ | ⟨rfl, rfl, rfl⟩ | ⟨rfl, rfl, rfl⟩ | ⟨rfl, rfl, rfl⟩ | ⟨rfl, rfl, rfl⟩ | ⟨rfl, rfl, rfl⟩ | ⟨rfl, rfl, rfl⟩ | ⟨rfl, rfl, rfl⟩ | ⟨rfl, rfl, rfl⟩ | ⟨rfl, rfl, rfl⟩ | ⟨rfl, rfl, rfl⟩ | ⟨rfl, rfl, rfl⟩ | ⟨rfl, rfl, rfl⟩ | ⟨rfl, rfl, rfl⟩
  all_goals (constructor <;> simp)

set_option maxHeartbeats 8000000 in
/-- **`mem_tok` on `[<base>±0x<digits>]`** for each of the 16 base registers, both signs, any number of leading zeros, every value -/
theorem memTok_hex (n : Nat) (name : Str) (g : Nat) (hp : (n, name, g) ∈ regs64) (sg : Nat) (hsg : sg = 43 ∨ sg = 45)
    (s : Instr) (k v : Nat) (hv : v < 2 ^ 64) :
    memTok s (91 :: name ++ sg :: 48 :: 120 :: hexDigs k v ++ [93]) 1 =
      .ok (getModDisp { ((({ s with memDisp := true, memIndex := 1 } : Instr).setOpd 1 { ({ s with memDisp := true, memIndex := 1 } : Instr).opd 1 with sib := [] })) with
              sibDisp := c_SIB, memOffset := if signNeg sg then processNegDisp (v % 2 ^ 32) else v % 2 ^ 32 } (signNeg sg)) := by
  have hnumc := fun c hc => numCh_plain2 c (AL.Properties.C03.hexDigs_num k v hv c hc)
  obtain ⟨hnc, hnne⟩ := regname_chars n name g hp
  have hs : ∀ c ∈ 91 :: name ++ sg :: 48 :: 120 :: hexDigs k v ++ [93], c ≠ 42 := by
    intro c hc
    simp only [List.mem_append, List.mem_cons, List.not_mem_nil, or_false, List.cons_append] at hc
    rcases hc with rfl | (h | rfl | rfl | rfl | h) | rfl
    · decide
    · exact (hnc c h).1
    · rcases hsg with rfl | rfl <;> decide
    · decide
    · decide
    · exact (hnumc c h).1
    · decide
  have hdig : ∀ c ∈ hexDigs k v ++ [93], c ≠ 43 := by
    intro c hc
    simp only [List.mem_append, List.mem_cons, List.not_mem_nil, or_false] at hc
    rcases hc with h | rfl
    · exact (hnumc c h).2.1
    · decide
  have hpl2 : plusOk (hexDigs k v ++ [93]) = true := plusOk_no_plus _ hdig
  obtain ⟨d0, rest, hd0, hds⟩ : ∃ d rest, d ≠ 43 ∧ hexDigs k v ++ [93] = d :: rest := by
    cases hh : hexDigs k v with
    | nil => exact ⟨93, [], by decide, rfl⟩
    | cons a b => exact ⟨a, b ++ [93], (hnumc a (by rw [hh]; exact List.mem_cons_self)).2.1, rfl⟩
  have hst : ∀ pre : Str, strtoul (48 :: 120 :: (hexDigs k v ++ [93])) 16 = v := fun _ => strtoul_hex_then k v hv 93 digitVal_bracket []
  have hgl : ∀ x : Nat, (x :: (hexDigs k v ++ [93])).getLast? = some 93 := by
    intro x; rw [hds, List.getLast?_cons_cons, ← hds]; simp
  have hlastc : ∀ pre : Str, chAt (pre ++ (hexDigs k v ++ [93])) ((pre ++ (hexDigs k v ++ [93])).length - 1) = 93 := by
    intro pre
    rw [chAt_last_append pre (hexDigs k v ++ [93]) (by simp), chAt_last_append (hexDigs k v) [93] (by simp)]
    rfl
  have hob : oneBracketPair (91 :: ((name ++ sg :: 48 :: 120 :: hexDigs k v) ++ [93])) = true := by
    apply oneBracketPair_of
    intro c hc
    simp only [List.mem_append, List.mem_cons] at hc
    rcases hc with h | rfl | rfl | rfl | h
    · exact ⟨(hnc c h).2.2.2.1, (hnc c h).2.2.1⟩
    · rcases hsg with rfl | rfl <;> decide
    · decide
    · decide
    · exact ⟨(hnumc c h).2.2.2, (hnumc c h).2.2.1⟩
  simp only [regs64, List.mem_cons, Prod.mk.injEq, List.not_mem_nil, or_false] at hp
  rcases hp with ⟨rfl, rfl, rfl⟩ | ⟨rfl, rfl, rfl⟩ | ⟨rfl, rfl, rfl⟩ | ⟨rfl, rfl, rfl⟩ | ⟨rfl, rfl, rfl⟩ | ⟨rfl, rfl, rfl⟩ | ⟨rfl, rfl, rfl⟩ | ⟨rfl, rfl, rfl⟩ | ⟨rfl, rfl, rfl⟩ | ⟨rfl, rfl, rfl⟩ | ⟨rfl, rfl, rfl⟩ | ⟨rfl, rfl, rfl⟩ | ⟨rfl, rfl, rfl⟩ | ⟨rfl, rfl, rfl⟩ | ⟨rfl, rfl, rfl⟩ | ⟨rfl, rfl, rfl⟩
  all_goals (
    rcases hsg with rfl | rfl
    all_goals (
      simp only [List.cons_append, List.nil_append, List.append_assoc] at hob
      have hlen : ∀ (pre : Str), (pre ++ (hexDigs k v ++ [93])).length = (hexDigs k v).length + (pre.length + 1) := by
        intro pre; simp; omega
      simp only [List.cons_append, List.nil_append, List.append_assoc] at hs ⊢
      have hpl2' : plusOk (d0 :: rest) = true := by rw [← hds]; exact hpl2
      have hgi := mem_scan_facts _ hs (by simp [plusOk, isLower, hds, hpl2']) (by simp) (chAt_last_of_getLast _ 93 (by simp [hgl])) hob
      unfold memTok
      simp only [hgi]
      have hst' := hst []
      simp [findAddMem, findAddMemGo, findMemConst, findMemConstGo, chAt, isDigit, hst', signNeg, Instr.setOpd, Instr.opd]))


theorem fmt_rm : getOpdFormat opdIndex [114, 109] = 5 := by decide +kernel
theorem key_mov_rm : strToInstrKey instrIndex [109, 111, 118] 5 = 108 := by decide +kernel
theorem reg_rax : strToReg (str! "rax") = 1024 := by decide +kernel

theorem kw_none_bracket (fuel : Nat) (k : Keywords) (t : Str) : checkForKeyword fuel k (91 :: t) = (k, 91 :: t) := by
  unfold checkForKeyword
  simp [isPrefix]

/-- the displacement field and mod bits `get_mod_disp` leaves, as a function of sign and magnitude -/
def lexDisp (neg : Bool) (v : Nat) : Nat × Nat :=
  let mo := if neg then processNegDisp (v % 2 ^ 32) else v % 2 ^ 32
  if mo == 0 then (mo, 0)
  else if !neg then (if mo ≤ 127 then (mo, 64) else (mo, 128))
  else (if mo ≤ 255 then (mo, 64) else (mo, 128))

set_option maxHeartbeats 8000000 in
/-- **the lexing half on `mov rax,[<base>±0x<digits>]`** -/
theorem lex_mem (n : Nat) (name : Str) (g : Nat) (hp : (n, name, g) ∈ regs64) (sg : Nat) (hsg : sg = 43 ∨ sg = 45) (k v : Nat) (hv : v < 2 ^ 64) :
    lexLine (str! "mov rax," ++ (91 :: name ++ sg :: 48 :: 120 :: hexDigs k v ++ [93])) =
      .ok (memRec name g (lexDisp (signNeg sg) v).1 (lexDisp (signNeg sg) v).2) := by
  have hmt := fun s => memTok_hex n name g hp sg hsg s k v hv
  have hok : regNameOk name g = true := by
    have := regs_ok
    rw [List.all_eq_true] at this
    exact this (n, name, g) hp
  obtain ⟨hnc, hnne⟩ := regname_chars n name g hp
  have hnumc := fun c hc => numCh_facts c (AL.Properties.C03.hexDigs_num k v hv c hc)
  generalize hmem : (91 :: name ++ sg :: 48 :: 120 :: hexDigs k v ++ [93]) = mem at *
  have hcomma : ∀ c ∈ mem, c ≠ 44 := by
    intro c hc
    rw [← hmem] at hc
    simp only [List.mem_append, List.mem_cons, List.not_mem_nil, or_false, List.cons_append] at hc
    rcases hc with rfl | (h | rfl | rfl | rfl | h) | rfl
    · decide
    · unfold regNameOk at hok
      simp only [Bool.and_eq_true, Bool.not_eq_true', bne_iff_ne, ne_eq, beq_iff_eq, List.all_eq_true] at hok
      exact (hok.1.1.1.1.1.2 c h).1.1
    · rcases hsg with rfl | rfl <;> decide
    · decide
    · decide
    · exact (hnumc c h).1
    · decide
  have hmne : mem ≠ [] := by rw [← hmem]; simp
  have hhead : ∃ t, mem = 91 :: t := ⟨_, hmem.symm⟩
  obtain ⟨mt, hmt'⟩ := hhead
  have hs2 : strtok (str! "rax," ++ mem) [44] = some (str! "rax", mem) := by
    have := strtok_split (str! "rax") mem 44 [44] (by simp) (by decide) (by decide)
    simpa using this
  have hs1 : strtok (str! "mov rax," ++ mem) [32, 9] = some (str! "mov", str! "rax," ++ mem) := by
    have := strtok_split (str! "mov") (str! "rax," ++ mem) 32 [32, 9] (by simp) (by decide) (by decide)
    simpa using this
  have hl : (chAt (str! "rax," ++ mem) ((str! "rax," ++ mem).length - 1) == 44) = false := by
    rw [chAt_last_append (str! "rax,") mem hmne, beq_eq_false_iff_ne]
    exact chAt_ne _ _ 44 (by decide) hcomma
  have hlm : (chAt mem (mem.length - 1) == 44) = false := by
    rw [beq_eq_false_iff_ne]; exact chAt_ne _ _ 44 (by decide) hcomma
  have h0m : (chAt mem 0 == 44) = false := by
    rw [beq_eq_false_iff_ne]; exact chAt_ne _ _ 44 (by decide) hcomma
  have hgrs : getRegStr mem = name := by
    rw [← hmem]
    clear hmt hcomma hmne hs2 hs1 hl hlm h0m hmt' hmem
    simp only [regs64, List.mem_cons, Prod.mk.injEq, List.not_mem_nil, or_false] at hp
    rcases hp with ⟨rfl, rfl, rfl⟩ | ⟨rfl, rfl, rfl⟩ | ⟨rfl, rfl, rfl⟩ | ⟨rfl, rfl, rfl⟩ | ⟨rfl, rfl, rfl⟩ | ⟨rfl, rfl, rfl⟩ | ⟨rfl, rfl, rfl⟩ | ⟨rfl, rfl, rfl⟩ | ⟨rfl, rfl, rfl⟩ | ⟨rfl, rfl, rfl⟩ | ⟨rfl, rfl, rfl⟩ | ⟨rfl, rfl, rfl⟩ | ⟨rfl, rfl, rfl⟩ | ⟨rfl, rfl, rfl⟩ | ⟨rfl, rfl, rfl⟩ | ⟨rfl, rfl, rfl⟩
    all_goals (rcases hsg with rfl | rfl <;> simp [getRegStr, getRegStrGo, isLower, isDigit])
  unfold lexLine instrTok
  rw [hs1]
  simp only [strtokRest, List.cons_append, List.nil_append]
  unfold operandTok
  have hl' : (chAt (114 :: 97 :: 120 :: 44 :: mem) ((114 :: 97 :: 120 :: 44 :: mem).length - 1) == 44) = false := hl
  have hs2' : strtok (114 :: 97 :: 120 :: 44 :: mem) [44] = some (str! "rax", mem) := hs2
  simp only [hl', hs2', show (chAt (114 :: 97 :: 120 :: 44 :: mem) 0 == 44) = false from rfl, Bool.or_self, Bool.false_eq_true, if_false]
  have hkw : checkForKeyword 3 ({ initInstr with instruction := strncpy [109, 111, 118] c_MAX_INSTR_LEN } : Instr).kw [114, 97, 120] = ({}, [114, 97, 120]) := by
    decide +kernel
  have hty : getOperandType [114, 97, 120] = 114 := by decide
  have hrs : getRegStr [114, 97, 120] = [114, 97, 120] := by decide
  simp only [List.length_cons, List.length_nil, hkw, hty, hrs, show ((114 : Nat) == 105) = false by decide,
    show ((114 : Nat) == 114) = true by decide, show ((114 : Nat) == 109) = false by decide, Bool.true_or, Bool.false_eq_true, if_false, if_true]
  rw [hmt'] 
  simp only [strtokRest, show (0 : Nat) < c_FOURTH_OPERAND by decide, if_true]
  rw [← hmt']
  unfold operandTok
  simp only [h0m, hlm, Bool.or_self, Bool.false_eq_true, if_false]
  rw [strtok_comma_whole mem hmne hcomma]
  rw [hmt']
  simp only [kw_none_bracket]
  rw [← hmt']
  have htym : getOperandType mem = 109 := by rw [hmt']; unfold getOperandType; simp
  simp only [htym, show ((109 : Nat) == 105) = false by decide, show ((109 : Nat) == 114) = false by decide,
    show ((109 : Nat) == 118) = false by decide, show ((109 : Nat) == 121) = false by decide, show ((109 : Nat) == 109) = true by decide,
    Bool.or_true, Bool.false_or, Bool.false_eq_true, if_false, if_true, hgrs, hmt, List.isEmpty_nil, strtokRest]
  have hrg : strToReg name = g := by
    unfold regNameOk at hok
    simp only [Bool.and_eq_true, beq_iff_eq] at hok
    exact hok.2
  have hne2 : name ≠ [] := hnne
  simp only [Instr.setOpd, Instr.opd, initInstr]
  unfold getModDisp lexDisp
  have htw : List.takeWhile (fun x => x != 0) [114, 109, 0, 0] = [114, 109] := by decide
  have hnm : strncpy [109, 111, 118] c_MAX_INSTR_LEN = [109, 111, 118] := by decide
  have hemp : name.isEmpty = false := by cases name with | nil => exact absurd rfl hne2 | cons a b => rfl
  rcases hsg with rfl | rfl
  all_goals (
    simp only [show signNeg 43 = false from rfl, show signNeg 45 = true from rfl, Bool.false_eq_true, if_false, if_true, Bool.not_false, Bool.not_true]
    repeat' split
    all_goals (simp_all [lexAfterTok, opdTypeString, fmt_rm, key_mov_rm, allOpdStrToReg, memNoReg, Instr.opd, Instr.setOpd, reg_rax, reg_none, memRec, kw0, hex0,
      c_opd_error, c_INSTR_ERROR, c_MOD24, c_MOD8, c_MOD16, c_SIB, c_MAX_SIGNED_8BIT, c_MAX_UNSIGNED_8BIT]))


theorem lexDisp_pos (v : Nat) (hv : v < 2 ^ 31) : lexDisp false v = dispClass (v : Int) := by
  have hm : v % 2 ^ 32 = v := Nat.mod_eq_of_lt (by omega)
  unfold lexDisp
  simp only [Bool.false_eq_true, if_false, hm, Bool.not_false, if_true]
  by_cases h0 : v = 0
  · subst h0; rfl
  · have hb : (v == 0) = false := by simp [h0]
    simp only [hb, Bool.false_eq_true, if_false]
    unfold dispClass
    rw [if_neg (by omega : ¬ ((v : Int) = 0))]
    by_cases h1 : v ≤ 127
    · rw [if_pos h1, if_pos (by omega : 0 < (v : Int) ∧ (v : Int) ≤ 127)]; simp
    · rw [if_neg h1, if_neg (by omega : ¬ (0 < (v : Int) ∧ (v : Int) ≤ 127)), if_pos (by omega : (127 : Int) < v)]; simp

theorem lexDisp_neg (v : Nat) (hv : v ≤ 2 ^ 31) : lexDisp true v = dispClass (-(v : Int)) := by
  have hm : v % 2 ^ 32 = v := Nat.mod_eq_of_lt (by omega)
  unfold lexDisp processNegDisp
  simp only [if_true, hm, Bool.not_true, Bool.false_eq_true, if_false]
  by_cases h0 : v = 0
  · subst h0; rfl
  · unfold dispClass
    rw [if_neg (by omega : ¬ (-(v : Int) = 0)), if_neg (by omega : ¬ (0 < -(v : Int) ∧ -(v : Int) ≤ 127)), if_neg (by omega : ¬ ((127 : Int) < -(v : Int)))]
    by_cases h1 : v < 0x81
    · have e1 : (2 ^ 32 - v) % 2 ^ 32 % 256 = 256 - v := by omega
      have hb : ((256 - v) == 0) = false := by simp; omega
      rw [if_pos h1, e1]
      simp only [hb, Bool.false_eq_true, if_false]
      rw [if_pos (by omega : 256 - v ≤ 255), if_pos (by omega : (-128 : Int) ≤ -(v : Int))]
      congr 1
      omega
    · have e1 : (2 ^ 32 - v) % 2 ^ 32 = 4294967296 - v := by omega
      have hb : ((4294967296 - v) == 0) = false := by simp; omega
      rw [if_neg h1, e1]
      simp only [hb, Bool.false_eq_true, if_false]
      rw [if_neg (by omega : ¬ (4294967296 - v ≤ 255)), if_neg (by omega : ¬ ((-128 : Int) ≤ -(v : Int)))]
      congr 1
      omega


set_option maxHeartbeats 8000000 in
theorem not_skipped_mem (n : Nat) (name : Str) (g : Nat) (hp : (n, name, g) ∈ regs64) (sg : Nat) (hsg : sg = 43 ∨ sg = 45) (l : Str)
    (h : ∀ x ∈ l, x ≠ 115 ∧ x ≠ 103 ∧ x ≠ 58) : isSkipped (str! "mov rax," ++ (91 :: name ++ sg :: l)) = false := by
  have h1 := contains_no_head 115 (str! "ection") l (fun x hx => (h x hx).1)
  have h2 := contains_no_head 103 (str! "lobal") l (fun x hx => (h x hx).2.1)
  have h3 : ¬ 58 ∈ l := fun hc => (h 58 hc).2.2 rfl
  simp only [regs64, List.mem_cons, Prod.mk.injEq, List.not_mem_nil, or_false] at hp
  rcases hp with ⟨rfl, rfl, rfl⟩ | ⟨rfl, rfl, rfl⟩ | ⟨rfl, rfl, rfl⟩ | ⟨rfl, rfl, rfl⟩ | ⟨rfl, rfl, rfl⟩ | ⟨rfl, rfl, rfl⟩ | ⟨rfl, rfl, rfl⟩ | ⟨rfl, rfl, rfl⟩ | ⟨rfl, rfl, rfl⟩ | ⟨rfl, rfl, rfl⟩ | ⟨rfl, rfl, rfl⟩ | ⟨rfl, rfl, rfl⟩ | ⟨rfl, rfl, rfl⟩ | ⟨rfl, rfl, rfl⟩ | ⟨rfl, rfl, rfl⟩ | ⟨rfl, rfl, rfl⟩
  all_goals (rcases hsg with rfl | rfl)
  all_goals (unfold isSkipped; simp only [List.cons_append, List.nil_append]; repeat rw [contains_cons])
  all_goals (rw [h1, h2]; simp [isPrefix, h3])

theorem mem_plain (n : Nat) (name : Str) (g : Nat) (hp : (n, name, g) ∈ regs64) (sg : Nat) (hsg : sg = 43 ∨ sg = 45) (k v : Nat) (hv : v < 2 ^ 64) :
    ∀ c ∈ 91 :: name ++ sg :: 48 :: 120 :: hexDigs k v ++ [93], plainCh c = true := by
  have hpl : regNamePlain name = true := by
    have := regs_plain
    rw [List.all_eq_true] at this
    exact this (n, name, g) hp
  unfold regNamePlain at hpl
  simp only [Bool.and_eq_true, List.all_eq_true, decide_eq_true_eq] at hpl
  intro c hc
  simp only [List.mem_append, List.mem_cons, List.not_mem_nil, or_false, List.cons_append] at hc
  rcases hc with rfl | (h | rfl | rfl | rfl | h) | rfl
  · decide
  · exact hpl.1 c h
  · rcases hsg with rfl | rfl <;> decide
  · decide
  · decide
  · exact numCh_plain c (AL.Properties.C03.hexDigs_num k v hv c h)
  · decide

set_option maxHeartbeats 2000000 in
/-- the line filter on `mov rax, [<base>±0x<digits>]`: only the blank after the comma disappears -/
theorem filter_mem (mem : Str) (hm : ∀ c ∈ mem, plainCh c = true) (hlen : mem.length ≤ 80) :
    ∃ n, filterLine (str! "mov rax, " ++ mem) = some (str! "mov rax," ++ mem, n) := by
  unfold filterLine
  have e1 : filterGo .begin [] 0 0 (str! "mov rax, " ++ mem) = filterGo .spaceFound [44, 120, 97, 114, 32, 118, 111, 109] 8 9 mem := by
    simp [filterGo, filterStep, stopCh, tolower, maxFiltered]
  rw [e1]
  have e3 := filterGo_plain .spaceFound (Or.inr rfl) mem [44, 120, 97, 114, 32, 118, 111, 109] 8 9 [] hm (by unfold maxFiltered; omega)
  rw [List.append_nil] at e3
  rw [e3]
  refine ⟨9 + mem.length, ?_⟩
  unfold filterGo
  simp


/-- **`mov rax, [<base>±0x<digits>]` as a line of text**: the whole per-line pipeline emits the canonical encoding of `[base + d]`,
    d = ±v, for each of the 16 base registers, every −2^31 ≤ d < 2^31 (any number k ≤ 50 of leading zeros), every option byte -/
theorem mem_line (n : Nat) (name : Str) (g : Nat) (hp : (n, name, g) ∈ regs64) (sg : Nat) (hsg : sg = 43 ∨ sg = 45) (k v : Nat) (hk : k ≤ 50)
    (hv : if sg = 45 then v ≤ 2 ^ 31 else v < 2 ^ 31) (opt : Nat) :
    (assembleLine opt (str! "mov rax, " ++ (91 :: name ++ sg :: 48 :: 120 :: hexDigs k v ++ [93]))).1 =
      .ok (.code (memBytes n (dispClass (if sg = 45 then -(v : Int) else (v : Int))).1 (dispClass (if sg = 45 then -(v : Int) else (v : Int))).2)) := by
  have hv64 : v < 2 ^ 64 := by split at hv <;> omega
  have hmp := mem_plain n name g hp sg hsg k v hv64
  have hnl : name.length ≤ 3 := by
    have := regs_plain
    rw [List.all_eq_true] at this
    have := this (n, name, g) hp
    unfold regNamePlain at this
    simp only [Bool.and_eq_true, decide_eq_true_eq] at this
    exact this.2
  have hlen : (91 :: name ++ sg :: 48 :: 120 :: hexDigs k v ++ [93]).length ≤ 80 := by
    have := AL.Properties.C03.hexDigs_length k v
    simp only [List.length_cons, List.length_append, List.length_nil]
    omega
  obtain ⟨nn, hf⟩ := filter_mem _ hmp hlen
  have hskip : isSkipped (str! "mov rax," ++ (91 :: name ++ sg :: 48 :: 120 :: hexDigs k v ++ [93])) = false := by
    have := not_skipped_mem n name g hp sg hsg (48 :: 120 :: hexDigs k v ++ [93]) (by
      intro x hx
      simp only [List.mem_append, List.mem_cons, List.not_mem_nil, or_false, List.cons_append] at hx
      rcases hx with rfl | rfl | h | rfl
      · decide
      · decide
      · have f := numCh_facts x (AL.Properties.C03.hexDigs_num k v hv64 x h)
        exact ⟨f.2.2.2.2.2.2.2.2.1, f.2.2.2.2.2.2.2.2.2.1, f.2.2.2.1⟩
      · decide)
    simpa using this
  have hlex := lex_mem n name g hp sg hsg k v hv64
  have hcls : lexDisp (signNeg sg) v = dispClass (if sg = 45 then -(v : Int) else (v : Int)) := by
    rcases hsg with rfl | rfl
    · simp only [show signNeg 43 = false from rfl, show ((43 : Nat) = 45) = False by decide, if_false] at hv ⊢
      exact lexDisp_pos v hv
    · simp only [show signNeg 45 = true from rfl, if_true] at hv ⊢
      exact lexDisp_neg v hv
  rw [hcls] at hlex
  have hd1 : -2147483648 ≤ (if sg = 45 then -(v : Int) else (v : Int)) := by split at hv <;> simp_all <;> omega
  have hd2 : (if sg = 45 then -(v : Int) else (v : Int)) < 2147483648 := by split at hv <;> simp_all <;> omega
  obtain ⟨s', hres, hbytes⟩ := lineBytes_some opt _ _ (mem_bytes n name g hp _ _ opt (dispClass_ok _ hd1 hd2))
  unfold assembleLine
  rw [hf]
  simp only [hskip, Bool.false_eq_true, if_false, hlex, hres, hbytes]

end AL.Lemmas.MemText
