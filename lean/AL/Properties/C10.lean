/-
  C10 — malformed or unencodable lines are rejected and emit nothing.

  Part 1 (any position, any mode): `rejected_line_fails_call` — if some line of the text is
  rejected by the per-line function, `assemble_all` fails, and the instance it leaves behind is
  exactly the one obtained by emitting the codes of the lines BEFORE it: nothing is emitted for the
  rejected line or for anything after it.  For every per-line function and text.

  Part 2 (which lines are rejected), each for EVERY option byte and every surrounding text:
   * `reject_nonprintable`     — a byte above 0x7e anywhere before a comment character;
   * `reject_unknown_mnemonic` — a mnemonic that is not one of the table's names;
   * `reject_bad_format`       — (kernel-evaluated on the regenerated table) for every mnemonic and
                                  every operand-kind string, the key lookup fails unless a row of that
                                  mnemonic offers that format;
   * `reject_unknown_kind_string` — an operand-kind string that is no format at all (five operands,
                                  kinds in an order no instruction has);
   * `reject_unknown_register` — a register token outside the register table (operands 1–3, base or index);
   * `reject_operand_after_immediate`, `reject_empty_operand` — at the tokenizer;
   * `reject_unclosed_bracket`, `reject_bad_scale`, `reject_stack_pointer_index` — memory expressions.
-/
import AL.Lemmas.FilterLemmas
import AL.Properties.C10Table
namespace AL.Properties.C10
open AL AL.Impl AL.Gen AL.Lemmas AL.Properties.C10Table

/-! ### Part 1: a rejected line fails the call and emits nothing -/

/-- the run over the codes of the lines before the first rejected line -/
theorem rejected_line_fails_call (lf : Str → R LineOut × Nat) (a : Inst) (text : Str) (d : Bool) (e : Err)
    (herr : (items lf (text.length + 1) text).err = some e) :
    (∃ e', (assembleAll lf a text d).ret = .error e') ∧
    (assembleAll lf a text d).a =
      (runCodes { a := a, bufPos := toU32 a.offset, brks := if d then some 0 else none }
        (items lf (text.length + 1) text).codes).1.a := by
  unfold assembleAll
  rw [assembleAllGo_eq, finish_a, finish_ret, herr]
  refine ⟨?_, rfl⟩
  unfold outcome
  cases (runCodes _ _).2 with
  | some e2 => exact ⟨e2, rfl⟩
  | none => exact ⟨e, rfl⟩

/-- at line level: a rejected line anywhere in the list of lines makes `itemsL` report an error,
    and the codes it returns are only those of earlier lines -/
theorem rejected_line_in_program (lf : Str → R LineOut × Nat) (ls1 ls2 : List Str) (l : Str) (e : Err)
    (hl : (lf l).1 = .error e) (h1 : (itemsL lf ls1).err = none) :
    (itemsL lf (ls1 ++ l :: ls2)).err = some e ∧ (itemsL lf (ls1 ++ l :: ls2)).codes = (itemsL lf ls1).codes := by
  induction ls1 with
  | nil => simp [itemsL, hl]
  | cons x xs ih =>
    simp only [List.cons_append, itemsL] at h1 ⊢
    cases hx : (lf x).1 with
    | error ex => simp [hx] at h1
    | ok lo =>
      cases lo with
      | skip => simp only [hx] at h1 ⊢; exact ih h1
      | code bs =>
        simp only [hx] at h1 ⊢
        have := ih h1
        exact ⟨this.1, by rw [this.2]⟩

/-! ### Part 2: which lines are rejected -/

/-- a byte above 0x7e (before any `;`/`%`/line end) makes the filter fail -/
theorem filter_nonprintable (st : FState) (acc : Str) (j i : Nat) (pre : Str) (c : Nat) (rest : Str)
    (hpre : ∀ x ∈ pre, stopCh x = false) (hc : c > 126) :
    filterGo st acc j i (pre ++ c :: rest) = none := by
  induction pre generalizing st acc j i with
  | nil =>
    have hs : stopCh c = false := by
      unfold stopCh
      have e1 : (c == 59) = false := by simp; omega
      have e2 : (c == 37) = false := by simp; omega
      have e3 : (c == 13) = false := by simp; omega
      have e4 : (c == 10) = false := by simp; omega
      simp [e1, e2, e3, e4]
    simp only [List.nil_append, filterGo, hs, Bool.false_eq_true, if_false]
    split <;> simp [hc]
  | cons x xs ih =>
    have hx := hpre x List.mem_cons_self
    simp only [List.cons_append, filterGo, hx, Bool.false_eq_true, if_false]
    split
    · split
      · rfl
      · split
        · rfl
        · exact ih _ _ _ _ (fun y hy => hpre y (List.mem_cons_of_mem _ hy))
    · split
      · rfl
      · exact ih _ _ _ _ (fun y hy => hpre y (List.mem_cons_of_mem _ hy))

/-- **(e)** a line containing a byte outside printable ASCII is rejected -/
theorem reject_nonprintable (opt : Nat) (pre : Str) (c : Nat) (rest : Str)
    (hpre : ∀ x ∈ pre, stopCh x = false) (hc : c > 126) :
    (assembleLine opt (pre ++ c :: rest)).1 = .error .fail := by
  unfold assembleLine
  have : filterLine (pre ++ c :: rest) = none := filter_nonprintable _ _ _ _ pre c rest hpre hc
  simp [this]

theorem keyNameGo_unknown (name : Str) (layout : Int) (rows : List Row) (i : Nat)
    (h : ∀ r ∈ rows, r.name ≠ name) (hne : name ≠ []) : keyNameGo name layout rows i = c_INSTR_ERROR := by
  induction rows generalizing i with
  | nil => rfl
  | cons r rs ih =>
    unfold keyNameGo
    split
    · rfl
    · have hr : (r.name == name) = false := by
        have := h r List.mem_cons_self
        simpa using this
      simp only [hr, Bool.and_false, Bool.false_eq_true, if_false]
      exact ih _ (fun x hx => h x (List.mem_cons_of_mem _ hx))

/-- the key lookup fails for a name that no table row carries -/
theorem strToInstrKey_unknown (idx : List Nat) (name : Str) (layout : Int)
    (h : ∀ r ∈ instrTable, r.name ≠ name) : strToInstrKey idx name layout = c_INSTR_ERROR := by
  unfold strToInstrKey
  cases name with
  | nil => rfl
  | cons c cs =>
    simp only
    split
    · exact keyNameGo_unknown _ _ _ _ (fun r hr => h r (List.mem_of_mem_drop hr)) (by simp)
    · rfl

theorem memNoReg_instruction (s : Instr) : (memNoReg s).instruction = s.instruction := by
  unfold memNoReg
  dsimp only
  split
  · unfold Instr.setOpd; split <;> rfl
  · rfl

theorem allOpdStrToReg_instruction (s : Instr) : (allOpdStrToReg s).instruction = s.instruction := rfl

/-- **(a)** unknown mnemonic: whatever the operands, the options and the rest of the program, a
    line whose mnemonic (`instruction[15]`, the first blank-delimited word of the filtered line)
    is not a table name is rejected -/
theorem reject_unknown_mnemonic (s : Instr) (hname : ∀ r ∈ instrTable, r.name ≠ s.instruction) :
    lexAfterTok s = .error .fail := by
  unfold lexAfterTok
  dsimp only
  split
  · rfl
  · rw [memNoReg_instruction, allOpdStrToReg_instruction, strToInstrKey_unknown _ _ _ hname]
    simp

theorem reject_unknown_mnemonic_line (f : Str) (s : Instr)
    (htok : instrTok initInstr f = .ok s) (hname : ∀ r ∈ instrTable, r.name ≠ s.instruction) :
    lexLine f = .error .fail := by
  unfold lexLine; rw [htok]; exact reject_unknown_mnemonic s hname

/-! ### (c) operand-kind combinations: see AL.Properties.C10Table (kernel evaluation on the table) -/

/-- the lookup failing means the line is rejected -/
theorem lookup_error_rejects (s : Instr) (h : lookup s.instruction (opdTypeString s) = c_INSTR_ERROR) :
    lexAfterTok s = .error .fail := by
  unfold lexAfterTok
  dsimp only
  unfold lookup at h
  split
  · rfl
  · rename_i hf
    simp only [hf, Bool.false_eq_true, if_false] at h
    rw [memNoReg_instruction, allOpdStrToReg_instruction, h]
    simp

/-! ### (b) register names -/

theorem resolveBranch_opds (s t : Instr) (h : resolveBranch s = .ok t) :
    t.opd0 = s.opd0 ∧ t.opd1 = s.opd1 ∧ t.opd2 = s.opd2 := by
  unfold resolveBranch at h
  split at h
  · dsimp only at h
    split at h
    · cases h
    · rename_i s1 hs1
      split at h
      · cases h
      · injection h with h; subst h
        split at hs1
        · injection hs1 with hs1; subst hs1; exact ⟨rfl, rfl, rfl⟩
        · split at hs1
          · cases hs1
          · injection hs1 with hs1; subst hs1; exact ⟨rfl, rfl, rfl⟩
  · injection h with h; subst h; exact ⟨rfl, rfl, rfl⟩

theorem resolveBranch_error (s : Instr) (e : Err) (h : resolveBranch s = .error e) : e = .fail := by
  unfold resolveBranch at h
  split at h
  · dsimp only at h
    split at h
    · rename_i e1 he1
      injection h with h; subst h
      split at he1
      · cases he1
      · split at he1
        · injection he1 with he1; exact he1.symm
        · cases he1
    · split at h
      · injection h with h; exact h.symm
      · cases h
  · cases h

/-- **(b)** a register token that `str_to_reg` cannot find makes `check_registers` fail the line,
    whatever else the line contains -/
theorem reject_unknown_register (opt : Nat) (s : Instr) (h : checkRegistersFail s = true) :
    resolveLine opt s = .error .fail := by
  unfold resolveLine
  cases hb : resolveBranch s with
  | error e => rw [resolveBranch_error s e hb]
  | ok t =>
    obtain ⟨h0, h1, h2⟩ := resolveBranch_opds s t hb
    dsimp only
    unfold resolveRest
    have : checkRegistersFail (selectShort t) = true := by
      unfold checkRegistersFail at h ⊢
      have e0 : (selectShort t).opd0 = s.opd0 := by unfold selectShort; dsimp only; split <;> exact h0
      have e1 : (selectShort t).opd1 = s.opd1 := by unfold selectShort; dsimp only; split <;> exact h1
      have e2 : (selectShort t).opd2 = s.opd2 := by unfold selectShort; dsimp only; split <;> exact h2
      rw [e0, e1, e2]; exact h
    simp [this]

theorem findRegGo_unknown (col : Nat) (reg : Str) (rows : List (Nat × List Str))
    (h : ∀ row ∈ rows, row.2.getD col [] ≠ reg) : findRegGo col reg rows = c_reg_error := by
  induction rows with
  | nil => rfl
  | cons r rs ih =>
    rcases r with ⟨gen, conv⟩
    unfold findRegGo
    dsimp only
    split
    · rfl
    · have := h (gen, conv) List.mem_cons_self
      simp only at this
      have hne : (conv.getD col [] == reg) = false := by simpa using this
      simp only [hne, Bool.false_eq_true, if_false]
      exact ih (fun row hr => h row (List.mem_cons_of_mem _ hr))

/-- a token that occurs nowhere in the register table converts to a value with the error bit -/
theorem strToReg_unknown (reg : Str) (hne : reg ≠ [])
    (h : ∀ row ∈ regTable, ∀ name ∈ row.2, name ≠ reg) :
    strToReg reg &&& c_reg_error = c_reg_error := by
  have hf : ∀ row col, findReg row col reg = c_reg_error := by
    intro row col
    unfold findReg
    apply findRegGo_unknown
    intro r hr hx
    have hr' := List.mem_of_mem_drop hr
    -- `getD col []` is either an element of the row or the empty default
    by_cases hc : col < r.2.length
    · have : r.2.getD col [] ∈ r.2 := by
        rw [List.getD_eq_getElem?_getD, List.getElem?_eq_getElem hc, Option.getD_some]
        exact List.getElem_mem _
      exact h r hr' _ this hx
    · have : r.2.getD col [] = [] := by
        rw [List.getD_eq_getElem?_getD, List.getElem?_eq_none (by omega)]; rfl
      rw [this] at hx; exact hne hx.symm
  unfold strToReg
  cases reg with
  | nil => exact absurd rfl hne
  | cons r0 rest =>
    simp only [hf]
    repeat (first | split | decide)

/-! ### (d) operands after an immediate, empty operands; (f) memory expressions -/

/-- **(d)** an empty operand — leading, doubled or trailing comma — is rejected by `operand_tok` -/
theorem reject_empty_operand (fuel : Nat) (s : Instr) (opds : Str) (pos : Nat)
    (h : chAt opds 0 = ch! ',' ∨ chAt opds (opds.length - 1) = ch! ',') :
    operandTok (fuel + 1) s opds pos = .error .fail := by
  unfold operandTok
  have : (chAt opds 0 == ch! ',' || chAt opds (opds.length - 1) == ch! ',') = true := by
    rcases h with h | h <;> simp [h]
  simp [this]

/-- **(f)** a memory expression whose last character is not `]` is rejected -/
theorem reject_unclosed_bracket (mem : Str) (h : chAt mem (mem.length - 1) ≠ ch! ']') : getIndexReg mem = none := by
  unfold getIndexReg
  split
  · rfl
  · have : (chAt mem (mem.length - 1) != ch! ']') = true := by simpa using h
    simp [this]

/-- **(f)** a memory expression with a second opening bracket (one of them is then never closed: `[[rbx]`) or with a closing bracket
    before its end (`[rbx]]`) is rejected (fix 5a09eff) -/
theorem reject_second_bracket (mem : Str) (h : (mem.filter (· == ch! '[')).length ≠ 1 ∨ mem.idxOf (ch! ']') ≠ mem.length - 1) :
    getIndexReg mem = none := by
  have hob : oneBracketPair mem = false := by
    unfold oneBracketPair
    rcases h with h | h <;> simp [h]
  unfold getIndexReg
  split
  · rfl
  · split
    · rfl
    · simp [hob]

example : getIndexReg (str! "[[rbx]") = none ∧ getIndexReg (str! "[rbx]]") = none ∧ getIndexReg (str! "[rbx]") = some (c_SIB, []) := by decide

/-- **(f)** a scale other than 1, 2, 4, 8 is rejected -/
theorem reject_bad_scale (scale next : Ch) (h : scale ≠ ch! '1' ∧ scale ≠ ch! '2' ∧ scale ≠ ch! '4' ∧ scale ≠ ch! '8') :
    checkSibDisp scale next = none := by
  unfold checkSibDisp
  obtain ⟨h1, h2, h4, h8⟩ := h
  have e1 : (scale == ch! '1') = false := by simpa using h1
  have e2 : (scale == ch! '2') = false := by simpa using h2
  have e4 : (scale == ch! '4') = false := by simpa using h4
  have e8 : (scale == ch! '8') = false := by simpa using h8
  split
  · rfl
  · simp [e1, e2, e4, e8]

/-- **(f)** the scale is ONE digit standing alone: whatever else touches it (another digit, a second `*`, `x` of a hexadecimal
    spelling, any other character) makes the expression rejected, so products and multi-digit or hexadecimal numbers never pass
    as the digit next to the register -/
theorem reject_glued_scale (scale next : Ch)
    (h : next ≠ ch! ']' ∧ next ≠ ch! '+' ∧ next ≠ ch! '-' ∧ next ≠ ch! '[') : checkSibDisp scale next = none := by
  unfold checkSibDisp
  obtain ⟨h1, h2, h3, h4⟩ := h
  have e1 : (next != ch! ']') = true := by simpa using h1
  have e2 : (next != ch! '+') = true := by simpa using h2
  have e3 : (next != ch! '-') = true := by simpa using h3
  have e4 : (next != ch! '[') = true := by simpa using h4
  simp [e1, e2, e3, e4]

example : checkSibDisp (ch! '2') (ch! '*') = none ∧ checkSibDisp (ch! '2') (ch! 'a') = none ∧ checkSibDisp (ch! '6') (ch! '1') = none := by decide

/-- **(f)** the stack pointer as index is rejected when it is scaled or when the base is the stack
    pointer too (src/prefix.c:131) -/
theorem reject_stack_pointer_index (s : Instr) (m : Operand) (r : Nat)
    (hidx : m.index ≠ c_reg_none) (hsp : (m.index &&& c_REG_MASK) = c_spl)
    (hbad : (m.reg &&& c_REG_MASK) = c_spl ∨ s.sibDisp ≠ 0) :
    getRegFinish s m r = .error .fail := by
  unfold getRegFinish
  have h2 : (m.index == c_reg_none) = false := by simpa using hidx
  simp only [h2, Bool.false_eq_true, if_false, hsp]
  rcases hbad with hb | hb
  · simp [hb]
  · have : (s.sibDisp != 0) = true := by simpa using hb
    simp [this]

def isFail (r : R LineOut) : Bool :=
  match r with
  | .error .fail => true
  | _ => false

/-- non-vacuity: concrete rejected lines of each family, evaluated -/
example : [str! "bogus rax", str! "mov rax, rbz", str! "lea rax, [rbp+4*rsp]", str! "mov rax, 1, rbx",
    str! "add rax, , rbx", str! "lea rax, [rsp+r14*9]", str! "vpaddb xmm1, [rax], xmm2", str! "mov rax, [rbx"].all
      (fun l => isFail (assembleLine 14 l).1) = true := by
  decide +kernel

end AL.Properties.C10
