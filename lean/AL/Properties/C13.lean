/-
  C13 — chunk fitting pads with NOPs so that no instruction straddles a chunk boundary.

  `layoutOne/layoutAll` (AL.Lemmas.Layout) describe what the buffer holds after a successful
  call: `asm_layout` proves that for every text, offset, chunk size c ≥ 2 and per-line function.
  This file states what that layout looks like in fitting mode:
   * every instruction is preceded by a (possibly empty) pad that is a concatenation of entries
     of the NOP table, of length exactly `c - p % c`, and non-empty only if the instruction
     (shorter than c) would otherwise cross the next boundary;
   * every instruction shorter than c then lies inside one c-aligned chunk;
   * deleting the pads yields the plain code;
   * the do-while loop never needs a third round;
   * chunk sizes below 2 switch fitting off.
   * `second_assembly_same`: the fitting loop assembles a padded instruction a SECOND time from the record the first
     assembly left behind (the `ib` slot marks it): the second assembly emits the same machine code, for every record —
     which is why the layout above can speak of "the" code of an instruction.
  (That every NOP-table entry decodes to exactly one x86 NOP is `C01.nop_table_decodes`, against the decoder specification.)
-/
import AL.Lemmas.Layout
import AL.Lemmas.Reassemble
namespace AL.Properties.C13
open AL AL.Impl AL.Gen AL.Lemmas

/-- a byte string made of NOP-table entries -/
inductive IsNopSeq : Bytes → Prop
  | nil : IsNopSeq []
  | cons (e rest : Bytes) : e ∈ nopTable → IsNopSeq rest → IsNopSeq (e ++ rest)

theorem nopBytes_isNopSeq (fuel rem : Nat) : IsNopSeq (nopBytes fuel rem) := by
  induction fuel generalizing rem with
  | zero => exact .nil
  | succ fuel ih =>
    unfold nopBytes
    by_cases h0 : (rem == 0) = true
    · simp only [h0, if_true]; exact .nil
    · simp only [h0]
      have hpos := nopTable_nonempty
      apply IsNopSeq.cons _ _ _ (ih _)
      have hlt : (if rem > nopTable.length then nopTable.length else rem) - 1 < nopTable.length := by
        split <;> omega
      rw [List.getD_eq_getElem?_getD, List.getElem?_eq_getElem hlt, Option.getD_some]
      exact List.getElem_mem _

/-- the pad is made of NOP-table entries and has the requested length -/
theorem pad_is_nops (n : Nat) : IsNopSeq (nopPadding n) ∧ (nopPadding n).length = n :=
  ⟨nopBytes_isNopSeq n n, nopPadding_length n⟩

/-- the pad in front of an instruction of `len` bytes at position `p` -/
def padOf (c p len : Nat) : Bytes := if needsPad c p len then nopPadding (c - p % c) else []

theorem layoutOne_fitting (c p : Nat) (bs : Bytes) :
    layoutOne .fitting c p bs = padOf c p bs.length ++ bs := by
  simp only [layoutOne, padOf]; split <;> simp

/-- **padding appears only where the instruction would otherwise cross a boundary** (and is
    shorter than a chunk), and then reaches exactly to the boundary -/
theorem pad_only_when_crossing (c p len : Nat) (hc : 2 ≤ c) :
    (padOf c p len ≠ [] → (0 < len ∧ len < c ∧ p / c ≠ (p + len - 1) / c)) ∧
    (padOf c p len).length = (if needsPad c p len then c - p % c else 0) ∧
    IsNopSeq (padOf c p len) := by
  unfold padOf
  cases h : needsPad c p len with
  | true =>
    simp only [if_true]
    refine ⟨fun _ => ?_, nopPadding_length _, (pad_is_nops _).1⟩
    unfold needsPad at h
    simp only [Bool.not_eq_true', Bool.or_eq_false_iff, decide_eq_false_iff_not, Nat.not_le] at h
    have hmod := Nat.mod_lt p (show 0 < c by omega)
    have hl : 0 < len := by omega
    exact ⟨hl, h.2, (cross_iff c p len (by omega) hl).1 h.1⟩
  | false =>
    simp only [Bool.false_eq_true, if_false]
    exact ⟨fun hne => absurd rfl hne, rfl, .nil⟩

/-- **no straddling**: an instruction shorter than `c` ends up inside one `c`-aligned chunk -/
theorem instruction_in_one_chunk (c p len : Nat) (hc : 2 ≤ c) (hl : 0 < len) (hlt : len < c) :
    let q := p + (padOf c p len).length
    q / c = (q + len - 1) / c := by
  intro q
  have hc0 : 0 < c := by omega
  apply fits_same_chunk c q len hc0 hl
  show len ≤ c - (p + (padOf c p len).length) % c
  unfold padOf
  cases h : needsPad c p len with
  | true =>
    simp only [if_true, nopPadding_length]
    exact second_round_fits c p len hc h
  | false =>
    simp only [Bool.false_eq_true, if_false, List.length_nil, Nat.add_zero]
    unfold needsPad at h
    simp only [Bool.not_eq_false', Bool.or_eq_true, decide_eq_true_eq] at h
    omega

/-- the pads in front of the instructions of a run -/
def padsOf (c : Nat) : Nat → List Bytes → List Bytes
  | _, [] => []
  | p, bs :: rest =>
    padOf c p bs.length :: padsOf c (p + (padOf c p bs.length).length + bs.length) rest

/-- **the output is the plain code with pads inserted in front of instructions** -/
theorem fitting_is_plain_with_pads (c p : Nat) (cs : List Bytes) :
    layoutAll .fitting c p cs = (List.zipWith (· ++ ·) (padsOf c p cs) cs).flatten := by
  induction cs generalizing p with
  | nil => simp [layoutAll, padsOf]
  | cons bs rest ih =>
    simp only [layoutAll, padsOf, List.zipWith_cons_cons, List.flatten_cons, layoutOne_fitting,
      List.length_append]
    rw [ih, Nat.add_assoc]

/-- **deleting the pads yields exactly the plain code** (what plain mode stores) -/
theorem plain_layout (c p : Nat) (cs : List Bytes) : layoutAll .assemble c p cs = cs.flatten := by
  induction cs generalizing p with
  | nil => rfl
  | cons bs rest ih => simp [layoutAll, layoutOne, ih]

theorem pads_are_nops (c p : Nat) (hc : 2 ≤ c) (cs : List Bytes) :
    ∀ pad ∈ padsOf c p cs, IsNopSeq pad := by
  induction cs generalizing p with
  | nil => intro pad h; simp [padsOf] at h
  | cons bs rest ih =>
    intro pad h
    simp only [padsOf, List.mem_cons] at h
    rcases h with rfl | h
    · exact (pad_only_when_crossing c p bs.length hc).2.2
    · exact ih _ _ h

/-- **chunk sizes below 2 disable fitting** -/
theorem small_chunk_disables (a : Inst) (c : Nat) (h : c < 2) : (setChunkSize a c).mode = .assemble := by
  simp [setChunkSize, h]

theorem chunk_enables (a : Inst) (c : Nat) (h : 2 ≤ c) :
    (setChunkSize a c).mode = .fitting ∧ (setChunkSize a c).chunkSize = c := by
  have : ¬ c < 2 := by omega
  simp [setChunkSize, this]

/-- **the call**: with fitting switched on (c ≥ 2) a successful `asm_assemble_str` leaves, from
    the old offset, the padded layout of the codes; the offset advances by its length; for every
    text, offset and per-line function. -/
theorem fitting_call (lfo : LineFnOf) (a : Inst) (text : Str) (c : Nat) (hc : 2 ≤ c)
    (hinv : BufInv a) (h0 : 0 ≤ a.offset) (h1 : a.offset ≤ a.mem.length)
    (hsmall : a.mem.length + growth a * (text.length + 1) + 60 < 2 ^ 31)
    (hok : (asmAssembleStrWith lfo (setChunkSize a c) text).2 = .ok ()) :
    let L := (List.zipWith (· ++ ·) (padsOf c a.offset.toNat (codesOf lfo a.opt text))
                (codesOf lfo a.opt text)).flatten
    (asmAssembleStrWith lfo (setChunkSize a c) text).1.offset = a.offset + (L.length : Int) ∧
    ((asmAssembleStrWith lfo (setChunkSize a c) text).1.mem.drop a.offset.toNat).take L.length = L := by
  intro L
  obtain ⟨hm, hcs⟩ := chunk_enables a c hc
  have hmem : (setChunkSize a c).mem = a.mem := by
    unfold setChunkSize; split <;> rfl
  have hoff : (setChunkSize a c).offset = a.offset := by
    unfold setChunkSize; split <;> rfl
  have hopt : (setChunkSize a c).opt = a.opt := by
    unfold setChunkSize; split <;> rfl
  have hbl : (setChunkSize a c).bufLen = a.bufLen := by
    unfold setChunkSize; split <;> rfl
  have hext : (setChunkSize a c).external = a.external := by
    unfold setChunkSize; split <;> rfl
  have hgr : growth (setChunkSize a c) = growth a := by unfold growth; rw [hext]
  have := asm_layout lfo (setChunkSize a c) text (by unfold BufInv at *; rw [hbl, hmem]; exact hinv)
    (by rw [hoff]; exact h0) (by rw [hoff, hmem]; exact h1) (by intro _; rw [hcs]; exact hc)
    (by rw [hmem, hgr]; exact hsmall) hok
  rw [hm, hcs, hoff, hopt, fitting_is_plain_with_pads] at this
  exact ⟨this.1, this.2.1⟩

/-- non-vacuity of the hypotheses of `instruction_in_one_chunk` and a concrete padded layout:
    chunk 8, a 3-byte and a 7-byte instruction from position 6: both padded -/
example : padsOf 8 6 [[1, 2, 3], [4, 5, 6, 7, 8, 9, 10]] = [[102, 144], [15, 31, 68, 0, 0]] := by decide

/-- **the second assembly of a padded instruction**: `assemble_asm` on the record its first call left behind gives the same
    bytes and leaves the same record (so a third, fourth … call would too) -/
theorem second_assembly_same (s : Instr) :
    assembleAsm (assembleInstr s).1 = assembleAsm s ∧ (assembleInstr (assembleInstr s).1).1 = (assembleInstr s).1 :=
  ⟨assembleAsm_again s, by rw [assembleInstr_again s]⟩

end AL.Properties.C13
