/*
 * thrdrv — N threads, each creating / configuring / using / destroying its OWN instances concurrently
 * (C18).  Every thread runs the same deterministic job list (rotated by its index) and records return
 * value, offset, count and a hash of the produced bytes per step; the main thread first runs the job
 * list alone as the reference and afterwards compares every thread's records with it.
 *
 *   thrdrv <threads> <rounds>
 *   thrdrv sched <k>      deterministic interleaving (needs -DALVERIF_HOOKS): thread A makes the process's FIRST
 *                         asm_create_instance call and is held after its k-th index table store; thread B then runs a
 *                         complete job (create / options / assemble / destroy, all first letters) while A is held; A is
 *                         released, finishes its create and runs the job too; both are compared with the job run alone
 *                         afterwards.  k beyond the number of stores: B runs after A's create has completed.
 *   thrdrv os <k>         deterministic interleaving at the library's OS calls (mmap / mremap / munmap, wrapped at link time):
 *                         thread A (two library-managed instances, the second grows twice) is held right after its k-th such
 *                         call has returned; thread B creates two library-managed instances and assembles into them; A is
 *                         released and finishes; B keeps using its instances (one of them grows) and destroys them; both are
 *                         compared with the same jobs run alone afterwards.
 *   thrdrv os2 <ka> <kb> <dir>  two-point schedule over the OS calls of the file entry points (open/fstat/read/close wrapped too):
 *                         A (directory path, file, missing path) held after its ka-th call, then B (its own file, twice) held after
 *                         its kb-th call, then A finishes, then B finishes; both compared with running alone.
 *   thrdrv debug <n> <r>  n threads, each with the debug listing switched on (asm_set_debug) together with chunk fitting
 *                         on private instances; the listings go to /dev/null, results are compared with the single-threaded run.
 * Output: "threads=N rounds=R steps=S mismatches=M" and, for the first mismatches, one line each.
 * Built with -fsanitize=thread (TSan reports go to stderr, exit code 66) and, separately, at -O2.
 */
#define _GNU_SOURCE 1
#include <assemblyline.h>
#include <pthread.h>
#include <sched.h>
#include <stdio.h>
#include <stdlib.h>
#include <string.h>
#include <stdint.h>
#include <time.h>

#define NPROG 8
static const char *PROGS[NPROG] = {
  "mov rax, 0x1122334455667788\nadd rax, rcx\nret\n",
  "vaddpd ymm1, ymm2, [rax+r9*8+16]\nshlx rax, [rbx], rcx\npaddb xmm3, xmm4\n",
  "push r12\npop r13\njmp short -5\ncall 0x100\nxor eax, eax\nret",
  "lea r15, [2*rax]\nlea r14, [rax+rsp]\nmov rcx, 5\nmov rdx, 0x0000000000000005\n",
  "cmovne r9, [r10+r11*4-8]\nsetb al\nmovzx eax, cx\nimul rax, rbx, 0x1234\ntest byte [rax], 1\n",
  "bogus rax\n",
  "add qword [rbx], 0x7f\nsub word [rcx+rdx], 0x1234\nmov byte [rsi], 0xff\nnop\nnop5\nnop11\n",
  "label:\n  section .text\n; comment only\nmulx rax, rbx, [rcx]\nadcx eax, ebx\nrorx r9, r10, 7\n",
};

struct rec { int rc; int off; int cnt; uint32_t hash; };
#define MAXSTEPS 4096
struct job { int idx; int rounds; int nsteps; struct rec r[MAXSTEPS]; };

static uint32_t fnv(const uint8_t *p, int n) {
  uint32_t h = 2166136261u;
  for (int i = 0; i < n; i++) { h ^= p[i]; h *= 16777619u; }
  return h;
}

static void run_job(struct job *j) {
  int s = 0;
  for (int round = 0; round < j->rounds; round++) {
    for (int k = 0; k < NPROG * 3 && s < MAXSTEPS; k++) {
      int pi = (k + round) % NPROG;
      int mode = k % 3;                    /* 0 plain, 1 fitting, 2 counting */
      int use_ext = (k + round) % 2;
      uint8_t *buf = use_ext ? malloc(512) : NULL;
      if (buf) memset(buf, 0xcc, 512);
      assemblyline_t al = asm_create_instance(buf, 512);
      if (!al) { j->r[s++] = (struct rec){-9, 0, 0, 0}; free(buf); continue; }
      enum asm_opt o[3] = {STRICT, NASM, SMART};
      asm_mov_imm(al, o[(k + round) % 3]);
      asm_sib_index_base_swap(al, o[(k / 3) % 2]);
      asm_sib_no_base(al, o[(k / 2) % 2]);
      int cnt = -1, rc;
      if (mode == 1) asm_set_chunk_size(al, 8 + (k % 5));
      if (mode == 2) rc = asm_assemble_string_counting_chunks(al, (char *)PROGS[pi], 6 + (k % 7), &cnt);
      else rc = asm_assemble_str(al, PROGS[pi]);
      int off = asm_get_offset(al);
      j->r[s++] = (struct rec){rc, off, cnt, fnv(asm_get_code(al), off > 0 && off < 512 ? off : 0)};
      asm_destroy_instance(al);
      free(buf);
    }
  }
  j->nsteps = s;
}

static void *thread_main(void *p) { run_job((struct job *)p); return NULL; }

/* ---- deterministic interleaving at the granularity of one index table store ---- */
static volatile int hold_at = -1;       /* A is held after this many stores (-1: never) */
static volatile int a_stores = 0;
static volatile int a_held = 0, a_done_create = 0, release_a = 0;
static pthread_t thread_a;

void alverif_hook_index_store(int table, int slot) {
  (void)table; (void)slot;
  if (hold_at < 0 || !pthread_equal(pthread_self(), thread_a)) return;
  if (__atomic_load_n(&a_done_create, __ATOMIC_SEQ_CST)) return;     /* only the process's first create is scheduled */
  a_stores++;
  if (a_stores == hold_at) {
    __atomic_store_n(&a_held, 1, __ATOMIC_SEQ_CST);
    while (!__atomic_load_n(&release_a, __ATOMIC_SEQ_CST)) sched_yield();
  }
}

static void *sched_a(void *p) {
  /* the first create of the process, then the job */
  uint8_t buf[64];
  assemblyline_t al = asm_create_instance(buf, sizeof buf);
  __atomic_store_n(&a_done_create, 1, __ATOMIC_SEQ_CST);
  if (al) asm_destroy_instance(al);
  run_job((struct job *)p);
  return NULL;
}

static int compare(const char *who, struct job *j, struct job *ref) {
  int mism = 0;
  if (j->nsteps != ref->nsteps) { printf("%s: %d steps, reference %d\n", who, j->nsteps, ref->nsteps); return 1; }
  for (int s = 0; s < ref->nsteps; s++)
    if (memcmp(&j->r[s], &ref->r[s], sizeof(struct rec)) != 0) {
      if (mism < 3)
        printf("%s step %d: rc=%d off=%d cnt=%d hash=%08x, alone rc=%d off=%d cnt=%d hash=%08x\n", who, s, j->r[s].rc, j->r[s].off,
               j->r[s].cnt, j->r[s].hash, ref->r[s].rc, ref->r[s].off, ref->r[s].cnt, ref->r[s].hash);
      mism++;
    }
  return mism;
}

static int main_sched(int k) {
  struct job *ja = calloc(1, sizeof *ja), *jb = calloc(1, sizeof *jb), *ref = calloc(1, sizeof *ref);
  ja->rounds = jb->rounds = ref->rounds = 1;
  hold_at = k;
  pthread_create(&thread_a, NULL, sched_a, ja);
  /* wait until A is held (or has finished its create without reaching k stores) */
  while (!__atomic_load_n(&a_held, __ATOMIC_SEQ_CST) && !__atomic_load_n(&a_done_create, __ATOMIC_SEQ_CST)) sched_yield();
  int held = __atomic_load_n(&a_held, __ATOMIC_SEQ_CST);
  run_job(jb);                       /* B: complete job while A is held */
  __atomic_store_n(&release_a, 1, __ATOMIC_SEQ_CST);
  pthread_join(thread_a, NULL);
  hold_at = -1;
  run_job(ref);                      /* alone, afterwards */
  int mism = compare("thread B (ran while A was held inside its create)", jb, ref) + compare("thread A", ja, ref);
  printf("sched k=%d held=%d stores_by_A=%d steps=%d mismatches=%d\n", k, held, a_stores, ref->nsteps, mism);
  return mism ? 1 : 0;
}

/* ---- deterministic interleaving at the OS calls of the library (built with -Wl,--wrap=mmap,--wrap=mremap,--wrap=munmap):
   thread A is held right after its k-th mmap / mremap / munmap has returned ---- */
#include <sys/mman.h>
#include <stdarg.h>
static volatile int os_hold_at = -1;
static int os_calls = 0;

static void os_point(void) {
  if (os_hold_at < 0 || !pthread_equal(pthread_self(), thread_a)) return;
  os_calls++;
  if (os_calls == os_hold_at) {
    __atomic_store_n(&a_held, 1, __ATOMIC_SEQ_CST);
    while (!__atomic_load_n(&release_a, __ATOMIC_SEQ_CST)) sched_yield();
  }
}
void *__real_mmap(void *, size_t, int, int, int, off_t);
void *__wrap_mmap(void *a, size_t l, int p, int f, int fd, off_t o) { void *r = __real_mmap(a, l, p, f, fd, o); os_point(); return r; }
void *__real_mremap(void *, size_t, size_t, int, ...);
void *__wrap_mremap(void *a, size_t o, size_t n, int f, ...) { void *r = __real_mremap(a, o, n, f); os_point(); return r; }
int __real_munmap(void *, size_t);
int __wrap_munmap(void *a, size_t l) { int r = __real_munmap(a, l); os_point(); return r; }

static char *big_text(void) {
  static char *big = NULL;
  if (!big) {
    big = malloc(700 * 32 + 1);
    char *w = big;
    for (int i = 0; i < 700; i++) w += sprintf(w, "mov rax, 0x11223344556677%02x\n", i & 0xff);
  }
  return big;
}
#define REC(j, al, rc) do { int off_ = asm_get_offset(al); (j)->r[(j)->nsteps++] = (struct rec){rc, off_, -1, fnv(asm_get_code(al), off_ > 0 ? off_ : 0)}; } while (0)

/* A: two library-managed instances; the second one grows twice (mremap has to move it: the first one sits right above it) */
static void grow_job(struct job *j) {
  j->nsteps = 0;
  assemblyline_t x = asm_create_instance(NULL, 0);
  assemblyline_t y = asm_create_instance(NULL, 0);
  if (!x || !y) { j->r[j->nsteps++] = (struct rec){-9, 0, 0, 0}; return; }
  int rc = asm_assemble_str(y, big_text()); REC(j, y, rc);
  rc = asm_assemble_str(x, PROGS[0]); REC(j, x, rc);
  rc = asm_assemble_str(y, big_text()); REC(j, y, rc);
  rc = asm_assemble_str(x, PROGS[3]); REC(j, x, rc);
  rc = asm_destroy_instance(y); j->r[j->nsteps++] = (struct rec){rc, 0, 0, 0};
  rc = asm_destroy_instance(x); j->r[j->nsteps++] = (struct rec){rc, 0, 0, 0};
}
static void *os_a(void *p) { grow_job((struct job *)p); return NULL; }

/* B: instances created while A is held, used again after A has finished */
static assemblyline_t b1, b2;
static void b_phase1(struct job *j) {
  j->nsteps = 0;
  b1 = asm_create_instance(NULL, 0);
  b2 = asm_create_instance(NULL, 0);
  if (!b1 || !b2) { j->r[j->nsteps++] = (struct rec){-9, 0, 0, 0}; return; }
  int rc = asm_assemble_str(b1, PROGS[0]); REC(j, b1, rc);
  rc = asm_assemble_str(b2, PROGS[3]); REC(j, b2, rc);
}
static void b_phase2(struct job *j) {
  if (!b1 || !b2) return;
  int rc = asm_assemble_str(b1, PROGS[1]); REC(j, b1, rc);
  rc = asm_assemble_str(b2, big_text()); REC(j, b2, rc);
  rc = asm_assemble_str(b1, PROGS[4]); REC(j, b1, rc);
  rc = asm_destroy_instance(b1); j->r[j->nsteps++] = (struct rec){rc, 0, 0, 0};
  rc = asm_destroy_instance(b2); j->r[j->nsteps++] = (struct rec){rc, 0, 0, 0};
}

static int main_os(int k) {
  struct job *ja = calloc(1, sizeof *ja), *jb = calloc(1, sizeof *jb), *ra = calloc(1, sizeof *ra), *rb = calloc(1, sizeof *rb);
  big_text();
  /* warm-up create so that the index tables exist: this mode is about the buffers */
  assemblyline_t w = asm_create_instance(NULL, 0);
  if (w) asm_destroy_instance(w);
  os_hold_at = k;
  pthread_create(&thread_a, NULL, os_a, ja);
  /* wait until A is held; A finishing its whole job is signalled through a_done_create by the wrapper below */
  struct timespec ts = {0, 1000000};
  int waited = 0;
  while (!__atomic_load_n(&a_held, __ATOMIC_SEQ_CST) && waited < 2000 && pthread_tryjoin_np(thread_a, NULL) != 0) { nanosleep(&ts, NULL); waited++; }
  int held = __atomic_load_n(&a_held, __ATOMIC_SEQ_CST);
  b_phase1(jb);                      /* B creates and uses its instances while A is held after its k-th OS call */
  __atomic_store_n(&release_a, 1, __ATOMIC_SEQ_CST);
  if (held) pthread_join(thread_a, NULL);
  b_phase2(jb);                      /* B goes on using them after A has finished */
  os_hold_at = -1;
  grow_job(ra);
  b_phase1(rb); b_phase2(rb);
  int mism = compare("thread B (created its instances while A was held after an OS call)", jb, rb) + compare("thread A", ja, ra);
  printf("os k=%d held=%d os_calls_by_A=%d steps=%d mismatches=%d\n", k, held, os_calls, ra->nsteps + rb->nsteps, mism);
  return mism ? 1 : 0;
}

/* ---- debug listing + chunk fitting in every thread (the library prints to stdout: sent to /dev/null, results go to the saved stdout) ---- */
#include <unistd.h>
#include <fcntl.h>
static void run_job_debug(struct job *j) {
  int s = 0;
  for (int round = 0; round < j->rounds; round++) {
    for (int k = 0; k < NPROG * 2 && s < MAXSTEPS; k++) {
      int pi = (k + round) % NPROG;
      uint8_t *buf = (k % 2) ? malloc(512) : NULL;
      if (buf) memset(buf, 0xcc, 512);
      assemblyline_t al = asm_create_instance(buf, 512);
      if (!al) { j->r[s++] = (struct rec){-9, 0, 0, 0}; free(buf); continue; }
      asm_set_debug(al, true);
      if (k % 3 != 2) asm_set_chunk_size(al, 7 + (k % 10));
      int rc = asm_assemble_str(al, PROGS[pi]);
      int rc2 = asm_assemble_str(al, PROGS[(pi + 3) % NPROG]);
      int off = asm_get_offset(al);
      j->r[s++] = (struct rec){rc * 16 + rc2, off, -1, fnv(asm_get_code(al), off > 0 && off < 512 ? off : 0)};
      asm_destroy_instance(al);
      free(buf);
    }
  }
  j->nsteps = s;
}
static void *thread_debug(void *p) { run_job_debug((struct job *)p); return NULL; }

static int main_debug(int n, int rounds) {
  int out = dup(1);
  int nul = open("/dev/null", O_WRONLY);
  fflush(stdout);
  dup2(nul, 1);
  if (n > 64) n = 64;
  struct job *ref = calloc(1, sizeof *ref);
  ref->rounds = rounds;
  run_job_debug(ref);
  struct job *jobs = calloc(n, sizeof *jobs);
  pthread_t th[64];
  for (int i = 0; i < n; i++) { jobs[i].rounds = rounds; pthread_create(&th[i], NULL, thread_debug, &jobs[i]); }
  for (int i = 0; i < n; i++) pthread_join(th[i], NULL);
  int mism = 0;
  for (int i = 0; i < n; i++) {
    if (jobs[i].nsteps != ref->nsteps) { mism++; continue; }
    for (int s = 0; s < ref->nsteps; s++) if (memcmp(&jobs[i].r[s], &ref->r[s], sizeof(struct rec)) != 0) mism++;
  }
  fflush(stdout);
  dprintf(out, "debug threads=%d rounds=%d steps=%d mismatches=%d\n", n, rounds, ref->nsteps, mism);
  return mism ? 1 : 0;
}

/* ---- two-point schedules over the OS calls of the FILE entry points (also wraps open / fstat / read / close):
   A (assembles a directory path - which fails -, a file, a missing path) is held after its ka-th OS call; B (assembles its own file
   twice) then runs until it is held after its kb-th OS call; A is released and finishes; B is released and finishes ---- */
#include <sys/stat.h>
static pthread_t thread_b;
static volatile int b_hold_at = -1, b_held = 0, release_b = 0;
static int b_calls = 0;
static void os_point2(void) {
  os_point();
  if (b_hold_at < 0 || !pthread_equal(pthread_self(), thread_b)) return;
  b_calls++;
  if (b_calls == b_hold_at) {
    __atomic_store_n(&b_held, 1, __ATOMIC_SEQ_CST);
    while (!__atomic_load_n(&release_b, __ATOMIC_SEQ_CST)) sched_yield();
  }
}
int __real_open(const char *, int, ...);
int __wrap_open(const char *p, int fl, ...) {
  mode_t m = 0;
  if (fl & O_CREAT) { va_list ap; va_start(ap, fl); m = va_arg(ap, mode_t); va_end(ap); }
  int r = __real_open(p, fl, m); os_point2(); return r;
}
int __real_close(int);
int __wrap_close(int fd) { int r = __real_close(fd); os_point2(); return r; }
ssize_t __real_read(int, void *, size_t);
ssize_t __wrap_read(int fd, void *b, size_t n) { ssize_t r = __real_read(fd, b, n); os_point2(); return r; }
int __real_fstat(int, struct stat *);
int __wrap_fstat(int fd, struct stat *st) { int r = __real_fstat(fd, st); os_point2(); return r; }

static char f_dir[600], f_a[600], f_b[600], f_missing[600];
static void file_job_a(struct job *j) {
  j->nsteps = 0;
  uint8_t buf[256];
  memset(buf, 0xcc, sizeof buf);
  assemblyline_t al = asm_create_instance(buf, sizeof buf);
  if (!al) { j->r[j->nsteps++] = (struct rec){-9, 0, 0, 0}; return; }
  int rc = asm_assemble_file(al, f_dir); REC(j, al, rc);
  rc = asm_assemble_file(al, f_a); REC(j, al, rc);
  rc = asm_assemble_file(al, f_missing); REC(j, al, rc);
  rc = asm_assemble_file(al, f_a); REC(j, al, rc);
  asm_destroy_instance(al);
}
static void file_job_b(struct job *j) {
  j->nsteps = 0;
  uint8_t buf[256];
  memset(buf, 0xcc, sizeof buf);
  assemblyline_t al = asm_create_instance(buf, sizeof buf);
  if (!al) { j->r[j->nsteps++] = (struct rec){-9, 0, 0, 0}; return; }
  int cnt = -1;
  int rc = asm_assemble_file(al, f_b); REC(j, al, rc);
  rc = asm_assemble_file_counting_chunks(al, f_b, 8, &cnt); REC(j, al, rc);
  j->r[j->nsteps - 1].cnt = cnt;
  asm_destroy_instance(al);
}
static void *os2_a(void *p) { file_job_a((struct job *)p); return NULL; }
static void *os2_b(void *p) { file_job_b((struct job *)p); return NULL; }
static void put_file(const char *path, const char *text) { FILE *f = fopen(path, "wb"); if (f) { fputs(text, f); fclose(f); } }

static int main_os2(int ka, int kb, const char *dir) {
  struct job *ja = calloc(1, sizeof *ja), *jb = calloc(1, sizeof *jb), *ra = calloc(1, sizeof *ra), *rb = calloc(1, sizeof *rb);
  snprintf(f_dir, sizeof f_dir, "%s/os2_%d_dir", dir, (int)getpid());
  snprintf(f_a, sizeof f_a, "%s/os2_%d_a.asm", dir, (int)getpid());
  snprintf(f_b, sizeof f_b, "%s/os2_%d_b.asm", dir, (int)getpid());
  snprintf(f_missing, sizeof f_missing, "%s/os2_%d_missing.asm", dir, (int)getpid());
  mkdir(f_dir, 0700);
  put_file(f_a, "mov rax, 0x1122334455667788\nadd rax, rcx\nret\n");
  put_file(f_b, "push r12\nmov rcx, 0x5\nvaddpd ymm1, ymm2, [rax+r9*8+16]\npop r12\nret\n");
  assemblyline_t w = asm_create_instance(NULL, 0);
  if (w) asm_destroy_instance(w);
  struct timespec ts = {0, 1000000};
  os_hold_at = ka;
  pthread_create(&thread_a, NULL, os2_a, ja);
  int waited = 0, a_joined = 0;
  while (!__atomic_load_n(&a_held, __ATOMIC_SEQ_CST) && waited < 2000) {
    if (pthread_tryjoin_np(thread_a, NULL) == 0) { a_joined = 1; break; }
    nanosleep(&ts, NULL); waited++;
  }
  int helda = __atomic_load_n(&a_held, __ATOMIC_SEQ_CST);
  b_hold_at = kb;
  pthread_create(&thread_b, NULL, os2_b, jb);
  int b_joined = 0;
  waited = 0;
  while (!__atomic_load_n(&b_held, __ATOMIC_SEQ_CST) && waited < 2000) {
    if (pthread_tryjoin_np(thread_b, NULL) == 0) { b_joined = 1; break; }
    nanosleep(&ts, NULL); waited++;
  }
  int heldb = __atomic_load_n(&b_held, __ATOMIC_SEQ_CST);
  __atomic_store_n(&release_a, 1, __ATOMIC_SEQ_CST);
  if (!a_joined) pthread_join(thread_a, NULL);
  __atomic_store_n(&release_b, 1, __ATOMIC_SEQ_CST);
  if (!b_joined) pthread_join(thread_b, NULL);
  os_hold_at = -1; b_hold_at = -1;
  file_job_a(ra);
  file_job_b(rb);
  int mism = compare("thread B (held between two of its OS calls while A finished)", jb, rb) + compare("thread A", ja, ra);
  unlink(f_a); unlink(f_b); rmdir(f_dir);
  printf("os2 ka=%d kb=%d held_a=%d held_b=%d steps=%d mismatches=%d\n", ka, kb, helda, heldb, ra->nsteps + rb->nsteps, mism);
  return mism ? 1 : 0;
}

int main(int argc, char **argv) {
  if (argc > 4 && !strcmp(argv[1], "os2")) return main_os2(atoi(argv[2]), atoi(argv[3]), argv[4]);
  if (argc > 3 && !strcmp(argv[1], "debug")) return main_debug(atoi(argv[2]), atoi(argv[3]));
  if (argc > 2 && !strcmp(argv[1], "sched")) return main_sched(atoi(argv[2]));
  if (argc > 2 && !strcmp(argv[1], "os")) return main_os(atoi(argv[2]));
  int n = argc > 1 ? atoi(argv[1]) : 4;
  int rounds = argc > 2 ? atoi(argv[2]) : 3;
  if (n > 64) n = 64;
  struct job *ref = calloc(1, sizeof *ref);
  ref->rounds = rounds;
  run_job(ref);
  struct job *jobs = calloc(n, sizeof *jobs);
  pthread_t th[64];
  for (int i = 0; i < n; i++) { jobs[i].idx = i; jobs[i].rounds = rounds; pthread_create(&th[i], NULL, thread_main, &jobs[i]); }
  for (int i = 0; i < n; i++) pthread_join(th[i], NULL);
  int mism = 0;
  for (int i = 0; i < n; i++) {
    if (jobs[i].nsteps != ref->nsteps) { mism++; printf("thread %d: %d steps, reference %d\n", i, jobs[i].nsteps, ref->nsteps); continue; }
    for (int s = 0; s < ref->nsteps; s++)
      if (memcmp(&jobs[i].r[s], &ref->r[s], sizeof(struct rec)) != 0) {
        if (mism < 5)
          printf("thread %d step %d: rc=%d off=%d cnt=%d hash=%08x, alone rc=%d off=%d cnt=%d hash=%08x\n", i, s, jobs[i].r[s].rc,
                 jobs[i].r[s].off, jobs[i].r[s].cnt, jobs[i].r[s].hash, ref->r[s].rc, ref->r[s].off, ref->r[s].cnt, ref->r[s].hash);
        mism++;
      }
  }
  int ok = 0, fail = 0;
  for (int s = 0; s < ref->nsteps; s++) (ref->r[s].rc == 0 ? ok++ : fail++);
  printf("threads=%d rounds=%d steps=%d ok_steps=%d failing_steps=%d mismatches=%d\n", n, rounds, ref->nsteps, ok, fail, mism);
  return mism ? 1 : 0;
}
