/-
  AL.Spec.X86Lemmas — little-endian fields, for EVERY value: what the reference decoder reads back
  from the bytes of a constant (kernel-checked, no evaluation).
-/
import AL.Spec.X86
import AL.Impl.Assembler
namespace AL.Spec.X86
open AL AL.Impl

/-- the n-byte little-endian encoding of v -/
def leBytes : Nat → Nat → List Nat
  | 0, _ => []
  | n + 1, v => v % 256 :: leBytes n (v / 256)

theorem leVal_leBytes (n v : Nat) : leVal (leBytes n v) = v % 256 ^ n := by
  induction n generalizing v with
  | zero => simp [leBytes, leVal, Nat.mod_one]
  | succ n ih =>
    simp only [leBytes, leVal, ih]
    rw [Nat.pow_succ, Nat.mul_comm (256 ^ n) 256, Nat.mod_mul]

theorem leVal_leBytes_lt (n v : Nat) (h : v < 256 ^ n) : leVal (leBytes n v) = v := by
  rw [leVal_leBytes, Nat.mod_eq_of_lt h]

theorem leVal_zeros (k : Nat) : leVal (List.replicate k 0) = 0 := by
  induction k with
  | zero => rfl
  | succ k ih => simp [List.replicate_succ, leVal, ih]

theorem leVal_append_zeros (xs : List Nat) (k : Nat) : leVal (xs ++ List.replicate k 0) = leVal xs := by
  induction xs with
  | nil => simp [leVal, leVal_zeros]
  | cons x xs ih => simp [leVal, ih]

/-- **the model's constant emission is little-endian, for every value**: the bytes `assemble_const`
    writes for c (as many as c needs, at most 8), with any zero padding behind them, read back as c -/
theorem leVal_assembleConstGo (f c : Nat) (h : c < 256 ^ f) : leVal (assembleConstGo f c) = c := by
  induction f generalizing c with
  | zero => simp at h; subst h; rfl
  | succ f ih =>
    unfold assembleConstGo
    split
    · rename_i hc; rw [hc]; rfl
    · simp only [leVal]
      rw [ih (c / 256) (by rw [Nat.div_lt_iff_lt_mul (by decide)]; rw [Nat.pow_succ] at h; exact h)]
      omega

theorem leVal_assembleConst (c : Nat) (h : c < 2 ^ 64) (k : Nat) :
    leVal (assembleConst c ++ List.replicate k 0) = c := by
  rw [leVal_append_zeros]
  exact leVal_assembleConstGo 8 c (by have : (256 : Nat) ^ 8 = 2 ^ 64 := by decide
                                      omega)

/-- two's complement: every signed value of `bits` bits is read back from its unsigned encoding -/
theorem toSigned_roundtrip (bits : Nat) (hb : 0 < bits) (d : Int)
    (hlo : -(2 ^ (bits - 1) : Nat) ≤ d) (hhi : d < (2 ^ (bits - 1) : Nat)) :
    toSigned bits (d % (2 ^ bits : Nat)).toNat = d := by
  have hpow : (2 : Nat) ^ bits = 2 * 2 ^ (bits - 1) := by
    cases bits with
    | zero => omega
    | succ b => simp [Nat.pow_succ, Nat.mul_comm]
  unfold toSigned
  by_cases hd : 0 ≤ d
  · have h1 : d % ((2 ^ bits : Nat) : Int) = d := Int.emod_eq_of_lt hd (by omega)
    rw [h1]
    have : d.toNat < 2 ^ (bits - 1) := by omega
    simp only [this, if_true]
    omega
  · have h1 : d % ((2 ^ bits : Nat) : Int) = d + (2 ^ bits : Nat) := by
      rw [← Int.add_emod_right d ((2 ^ bits : Nat) : Int)]
      exact Int.emod_eq_of_lt (by omega) (by omega)
    rw [h1]
    have hge : ¬ (d + ((2 ^ bits : Nat) : Int)).toNat < 2 ^ (bits - 1) := by omega
    simp only [hge, if_false]
    omega

end AL.Spec.X86
