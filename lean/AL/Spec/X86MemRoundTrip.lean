/-
  AL.Spec.X86MemRoundTrip — the reference decoder reads back EVERY memory operand from its canonical
  ModRM/SIB/displacement encoding (kernel-checked, all displacements, all registers): evidence about the
  trusted decoder itself, independent of the library.
-/
import AL.Spec.X86Lemmas
import AL.Lemmas.ConstBytes
namespace AL.Spec.X86
open AL.Lemmas

/-- the canonical encoding of a memory operand: (mod, rm, SIB byte if any, displacement bytes, REX.X, REX.B) -/
structure MemEnc where
  mod  : Nat
  rm   : Nat
  sib  : List Nat
  disp : List Nat
  x    : Bool
  b    : Bool

def scaleBits (s : Nat) : Nat := if s == 2 then 1 else if s == 4 then 2 else if s == 8 then 3 else 0

/-- two's complement of a displacement in `n` bytes -/
def dispBytes (n : Nat) (d : Int) : List Nat := leBytes n (d % ((256 ^ n : Nat) : Int)).toNat

def fits8 (d : Int) : Bool := decide (-128 ≤ d) && decide (d < 128)

def encodeMemRef (m : Mem) : MemEnc :=
  match m.base, m.index with
  | none, none => { mod := 0, rm := 4, sib := [0 * 64 + 4 * 8 + 5], disp := dispBytes 4 m.disp, x := false, b := false }
  | none, some i => { mod := 0, rm := 4, sib := [scaleBits m.scale * 64 + (i % 8) * 8 + 5], disp := dispBytes 4 m.disp, x := decide (i ≥ 8), b := false }
  | some bs, idx =>
    let mod := if m.disp == 0 && bs % 8 != 5 then 0 else if fits8 m.disp then 1 else 2
    let disp := if mod == 0 then [] else if mod == 1 then dispBytes 1 m.disp else dispBytes 4 m.disp
    match idx with
    | none =>
      if bs % 8 == 4 then { mod, rm := 4, sib := [0 * 64 + 4 * 8 + 4], disp, x := false, b := decide (bs ≥ 8) }
      else { mod, rm := bs % 8, sib := [], disp, x := false, b := decide (bs ≥ 8) }
    | some i => { mod, rm := 4, sib := [scaleBits m.scale * 64 + (i % 8) * 8 + bs % 8], disp, x := decide (i ≥ 8), b := decide (bs ≥ 8) }

/-- operands the documented syntax can express -/
def Mem.wf (m : Mem) : Prop :=
  m.rip = false ∧ (∀ b, m.base = some b → b < 16) ∧ (∀ i, m.index = some i → i < 16 ∧ i ≠ 4) ∧
  (m.index = none → m.scale = 1) ∧ (m.scale = 1 ∨ m.scale = 2 ∨ m.scale = 4 ∨ m.scale = 8) ∧
  -2147483648 ≤ m.disp ∧ m.disp < 2147483648

theorem dispBytes_length (n : Nat) (d : Int) : (dispBytes n d).length = n := leBytes_length n _

theorem leVal_dispBytes (n : Nat) (d : Int) : leVal (dispBytes n d) = (d % ((256 ^ n : Nat) : Int)).toNat := by
  unfold dispBytes
  apply leVal_leBytes_lt
  have h1 := Int.emod_lt_of_pos d (show (0 : Int) < ((256 ^ n : Nat) : Int) by
    have := Nat.pos_of_ne_zero (Nat.pos_iff_ne_zero.mp (Nat.pow_pos (n := n) (show 0 < 256 by decide))); omega)
  have h0 := Int.emod_nonneg d (show ((256 ^ n : Nat) : Int) ≠ 0 by
    have := Nat.pow_pos (n := n) (show 0 < 256 by decide); omega)
  omega

theorem take_append_len {α} (a b : List α) (n : Nat) (h : a.length = n) : (a ++ b).take n = a := by
  rw [← h]; simp

theorem signed8 (d : Int) (h : fits8 d = true) : toSigned 8 (d % ((256 ^ 1 : Nat) : Int)).toNat = d := by
  unfold fits8 at h
  simp only [Bool.and_eq_true, decide_eq_true_eq] at h
  exact toSigned_roundtrip 8 (by decide) d (by simpa using h.1) (by simpa using h.2)

theorem signed32 (d : Int) (h1 : -2147483648 ≤ d) (h2 : d < 2147483648) : toSigned 32 (d % ((256 ^ 4 : Nat) : Int)).toNat = d :=
  toSigned_roundtrip 32 (by decide) d (by simpa using h1) (by simpa using h2)


theorem scaleBits_pow (s : Nat) (h : s = 1 ∨ s = 2 ∨ s = 4 ∨ s = 8) : 2 ^ scaleBits s = s ∧ scaleBits s < 4 := by
  rcases h with rfl | rfl | rfl | rfl <;> decide

/-- the displacement part: what the decoder reads behind ModRM/SIB for the mod the encoder chose -/
theorem disp_roundtrip (d : Int) (bs5 : Bool) (h1 : -2147483648 ≤ d) (h2 : d < 2147483648) (rest : Bytes) :
    let mod := if d == 0 && !bs5 then 0 else if fits8 d then 1 else 2
    let disp := if mod == 0 then [] else if mod == 1 then dispBytes 1 d else dispBytes 4 d
    let dlen := if mod == 1 then 1 else if mod == 2 then 4 else 0
    disp.length = dlen ∧ ¬ (disp ++ rest).length < dlen ∧
    (if dlen == 0 then (0 : Int) else toSigned (8 * dlen) (leVal ((disp ++ rest).take dlen))) = d := by
  dsimp only
  by_cases hz : (d == 0 && !bs5) = true
  · simp only [hz, if_true]
    simp only [Bool.and_eq_true, beq_iff_eq] at hz
    simp [hz.1]
  · simp only [hz, Bool.false_eq_true, if_false]
    by_cases h8 : fits8 d = true
    · simp only [h8, if_true]
      refine ⟨dispBytes_length 1 d, by simp [dispBytes_length], ?_⟩
      simp only [beq_self_eq_true, if_true, show ((1 : Nat) == 0) = false by decide, Bool.false_eq_true, if_false]
      rw [take_append_len _ _ 1 (dispBytes_length 1 d), leVal_dispBytes]
      exact signed8 d h8
    · simp only [h8, Bool.false_eq_true, if_false]
      refine ⟨dispBytes_length 4 d, by simp [dispBytes_length], ?_⟩
      simp only [show ((2 : Nat) == 1) = false by decide, show ((2 : Nat) == 0) = false by decide, show ((4 : Nat) == 0) = false by decide,
        Bool.false_eq_true, if_false, if_true, beq_self_eq_true]
      rw [take_append_len _ _ 4 (dispBytes_length 4 d), leVal_dispBytes]
      exact signed32 d h1 h2


theorem mod8_lt (n : Nat) : n % 8 < 8 := Nat.mod_lt _ (by decide)

theorem ext_reg (n : Nat) (h : n < 16) : (if decide (n ≥ 8) = true then n % 8 + 8 else n % 8) = n := by
  by_cases h8 : n ≥ 8
  · simp [h8]; omega
  · simp [h8]; omega

/-- **every memory operand the documented syntax can express is read back from its canonical encoding**,
    whatever follows it -/
theorem decodeMem_encodeMemRef (m : Mem) (h : m.wf) (e : Ext) (reg : Nat) (rest : Bytes)
    (hx : e.x = (encodeMemRef m).x) (hb : e.b = (encodeMemRef m).b) :
    decodeMem e m.addr32 ⟨(encodeMemRef m).mod, reg, (encodeMemRef m).rm⟩ m.size
        ((encodeMemRef m).sib ++ (encodeMemRef m).disp ++ rest) =
      some (m, (encodeMemRef m).sib.length + (encodeMemRef m).disp.length) := by
  obtain ⟨hrip, hbase, hidx, hsc1, hsc, hd1, hd2⟩ := h
  obtain ⟨size, a32, base, index, scale, disp, rip⟩ := m
  simp only at hrip hbase hidx hsc1 hsc hd1 hd2
  subst hrip
  have hsb := scaleBits_pow scale hsc
  cases base with
  | none =>
    cases index with
    | none =>
      -- [disp32]
      have hs1 : scale = 1 := hsc1 rfl
      subst hs1
      simp only [encodeMemRef] at hx hb ⊢
      unfold decodeMem
      simp only [beq_self_eq_true, if_true, List.cons_append, List.nil_append, hx]
      simp only [show ((0 * 64 + 4 * 8 + 5) / 8 % 8 == 4) = true by decide, Bool.not_false, Bool.and_true, if_true,
        show ((0 * 64 + 4 * 8 + 5) % 8 == 5) = true by decide, show ((0 : Nat) == 1) = false by decide,
        show ((0 : Nat) == 2) = false by decide, Bool.false_or, Bool.true_and, Bool.false_eq_true, if_false, Option.isNone_none]
      have hlen : ¬ (dispBytes 4 disp ++ rest).length < 4 := by simp [dispBytes_length]
      simp only [hlen, if_false, show ((4 : Nat) == 0) = false by decide, Bool.false_eq_true]
      rw [take_append_len _ _ 4 (dispBytes_length 4 disp), leVal_dispBytes, signed32 disp hd1 hd2]
      simp [dispBytes_length]
    | some i =>
      -- [scale*index+disp32]
      obtain ⟨hi16, hi4⟩ := hidx i rfl
      simp only [encodeMemRef] at hx hb ⊢
      unfold decodeMem
      simp only [beq_self_eq_true, if_true, List.cons_append, List.nil_append, hx]
      have hsib1 : (scaleBits scale * 64 + i % 8 * 8 + 5) / 64 = scaleBits scale := by have := mod8_lt i; omega
      have hsib2 : (scaleBits scale * 64 + i % 8 * 8 + 5) / 8 % 8 = i % 8 := by have := mod8_lt i; omega
      have hsib3 : (scaleBits scale * 64 + i % 8 * 8 + 5) % 8 = 5 := by omega
      simp only [hsib1, hsib2, hsib3, beq_self_eq_true, Bool.and_true, Bool.true_and,
        show ((0 : Nat) == 1) = false by decide, show ((0 : Nat) == 2) = false by decide, Bool.false_or, Bool.false_eq_true, if_false, if_true]
      have hidx' : (if (i % 8 == 4 && !decide (i ≥ 8)) = true then none else some (if decide (i ≥ 8) = true then i % 8 + 8 else i % 8)) = some i := by
        have : (i % 8 == 4 && !decide (i ≥ 8)) = false := by
          by_cases h8 : i ≥ 8
          · simp [h8]
          · simp [h8]; omega
        simp only [this, Bool.false_eq_true, if_false, ext_reg i hi16]
      simp only [hidx']
      have hlen : ¬ (dispBytes 4 disp ++ rest).length < 4 := by simp [dispBytes_length]
      simp only [hlen, if_false, show ((4 : Nat) == 0) = false by decide, Bool.false_eq_true, Option.isNone_some]
      rw [take_append_len _ _ 4 (dispBytes_length 4 disp), leVal_dispBytes, signed32 disp hd1 hd2, hsb.1]
      simp [dispBytes_length]
  | some bs =>
    have hb16 := hbase bs rfl
    have hdr := disp_roundtrip disp (bs % 8 == 5) hd1 hd2 rest
    dsimp only at hdr
    have hmodle : (if (disp == 0 && !(bs % 8 == 5)) = true then 0 else if fits8 disp = true then 1 else 2) ≤ 2 := by
      split
      · decide
      · split <;> decide
    cases index with
    | none =>
      have hs1 : scale = 1 := hsc1 rfl
      subst hs1
      by_cases h4 : (bs % 8 == 4) = true
      · -- rsp / r12 as base: SIB byte 0x24
        simp only [encodeMemRef, h4, if_true, bne] at hx hb ⊢
        unfold decodeMem
        simp only [beq_self_eq_true, if_true, List.cons_append, List.nil_append, hx, hb]
        simp only [show ((0 * 64 + 4 * 8 + 4) / 8 % 8 == 4) = true by decide, Bool.not_false, Bool.and_true, if_true,
          show ((0 * 64 + 4 * 8 + 4) % 8 == 5) = false by decide, Bool.false_and, Bool.false_eq_true, if_false, Bool.or_false,
          show ((0 * 64 + 4 * 8 + 4) % 8) = 4 by decide, Option.isNone_none]
        have hb4 : bs % 8 = 4 := by simpa using h4
        have hreg : (if decide (bs ≥ 8) = true then 4 + 8 else 4) = bs := by
          have := ext_reg bs hb16; rw [hb4] at this; exact this
        obtain ⟨hl, hnl, hv⟩ := hdr
        generalize hmod : (if (disp == 0 && !(bs % 8 == 5)) = true then 0 else if fits8 disp = true then 1 else 2) = mod at *
        have hm : mod = 0 ∨ mod = 1 ∨ mod = 2 := by omega
        rcases hm with rfl | rfl | rfl <;> simp_all
      · -- plain base
        have h4' : (bs % 8 == 4) = false := by simpa using h4
        simp only [encodeMemRef, h4', Bool.false_eq_true, if_false, bne] at hx hb ⊢
        unfold decodeMem
        simp only [h4', Bool.false_eq_true, if_false, List.nil_append, hb]
        obtain ⟨hl, hnl, hv⟩ := hdr
        by_cases h5 : (bs % 8 == 5) = true
        · -- rbp / r13: never mod 00
          have hmod0 : (if (disp == 0 && !(bs % 8 == 5)) = true then 0 else if fits8 disp = true then 1 else 2) ≠ 0 := by
            simp only [h5, Bool.not_true, Bool.and_false, Bool.false_eq_true, if_false]
            split <;> decide
          generalize hmod : (if (disp == 0 && !(bs % 8 == 5)) = true then 0 else if fits8 disp = true then 1 else 2) = mod at *
          have hm : mod = 1 ∨ mod = 2 := by omega
          have hreg := ext_reg bs hb16
          rcases hm with rfl | rfl <;> simp_all
        · have h5' : (bs % 8 == 5) = false := by simpa using h5
          generalize hmod : (if (disp == 0 && !(bs % 8 == 5)) = true then 0 else if fits8 disp = true then 1 else 2) = mod at *
          have hm : mod = 0 ∨ mod = 1 ∨ mod = 2 := by omega
          have hreg := ext_reg bs hb16
          rcases hm with rfl | rfl | rfl <;> simp_all
    | some i =>
      obtain ⟨hi16, hi4⟩ := hidx i rfl
      simp only [encodeMemRef, bne] at hx hb ⊢
      unfold decodeMem
      simp only [beq_self_eq_true, if_true, List.cons_append, List.nil_append, hx, hb]
      have hb8 := mod8_lt bs
      have hsib1 : (scaleBits scale * 64 + i % 8 * 8 + bs % 8) / 64 = scaleBits scale := by have := mod8_lt i; omega
      have hsib2 : (scaleBits scale * 64 + i % 8 * 8 + bs % 8) / 8 % 8 = i % 8 := by have := mod8_lt i; omega
      have hsib3 : (scaleBits scale * 64 + i % 8 * 8 + bs % 8) % 8 = bs % 8 := by omega
      simp only [hsib1, hsib2, hsib3]
      have hidx' : (if (i % 8 == 4 && !decide (i ≥ 8)) = true then none else some (if decide (i ≥ 8) = true then i % 8 + 8 else i % 8)) = some i := by
        have : (i % 8 == 4 && !decide (i ≥ 8)) = false := by
          by_cases h8 : i ≥ 8
          · simp [h8]
          · simp [h8]; omega
        simp only [this, Bool.false_eq_true, if_false, ext_reg i hi16]
      simp only [hidx', Option.isNone_some, Bool.false_eq_true, if_false, hsb.1]
      obtain ⟨hl, hnl, hv⟩ := hdr
      have hreg := ext_reg bs hb16
      by_cases h5 : (bs % 8 == 5) = true
      · have hmod0 : (if (disp == 0 && !(bs % 8 == 5)) = true then 0 else if fits8 disp = true then 1 else 2) ≠ 0 := by
          simp only [h5, Bool.not_true, Bool.and_false, Bool.false_eq_true, if_false]
          split <;> decide
        generalize hmod : (if (disp == 0 && !(bs % 8 == 5)) = true then 0 else if fits8 disp = true then 1 else 2) = mod at *
        have hm : mod = 1 ∨ mod = 2 := by omega
        rcases hm with rfl | rfl <;> simp_all
      · have h5' : (bs % 8 == 5) = false := by simpa using h5
        generalize hmod : (if (disp == 0 && !(bs % 8 == 5)) = true then 0 else if fits8 disp = true then 1 else 2) = mod at *
        have hm : mod = 0 ∨ mod = 1 ∨ mod = 2 := by omega
        rcases hm with rfl | rfl | rfl <;> simp_all

end AL.Spec.X86
